"""C18 - randomised operations are fresh, entropy-driven and fail closed."""
import ctypes, hashlib, os
from hypothesis import strategies as st
from vlib.core import Prop
from vlib import build as B
from vlib.ffi import lib, Buf, obj, sizeof, shim, helper, const
from vlib.ref import sm2 as M
from vlib.ref import sigder as D
from vlib.sm2io import key_in
from vlib import pki, net

P = Prop("C18", "fault_enumeration",
         rule="For each randomised operation of a catalogue (SM2 key generation / sign one-shot, context, fixed length / encrypt one-shot, context, "
              "fixed length; PKCS#8 encryption; SM9 master key generation, sign, encrypt, exchange step 1A/1B; TLS record IV, hello random, "
              "pre-master secret; the six handshake endpoints with and without client authentication) and generated non-random inputs: a dry "
              "run on entropy stream A counts its D draws and records its output; the same stream must reproduce the output byte for byte; "
              "stream B must change it; and for EVERY i < D the i-th draw is made to fail: the operation must return != 1 (handshake "
              "endpoints: must return != 1 and must not send any handshake or application record that, by comparison with a run whose stream "
              "differs from draw i on, depends on draws >= i; alerts are allowed). Histories: up to 200 (quick) / 1000 (thorough) repetitions "
              "on one stream and one context never repeat a nonce-derived value. Each (operation, i) is a case; distinct by (operation, inputs, i).",
         variants=("asan",),
         assumptions=["getentropy() is the only entropy source (interposed per thread)", "clock frozen", "PKI by vlib/ref/x509.py",
                      "quiescence (600 ms without traffic) ends a handshake run as 'failed'"])


def _d(seed, label):
    return int.from_bytes(hashlib.sha256(b"c18/%d/%s" % (seed, label.encode())).digest(), "big") % (M.N - 2) + 1


def _bytes(seed, label, n):
    return hashlib.shake_128(b"c18/%d/%s" % (seed, label.encode())).digest(n)


# ---------------------------------------------------------------------------
# pure operations: each returns (ret, output bytes); all inputs derive from `seed`

def _op_sm2_keygen(l, seed, n):
    k = obj("SM2_KEY")
    r = l.sm2_key_generate(k)
    return r, k.raw()


def _op_sm2_sign(l, seed, n):
    d = _d(seed, "k"); key = key_in(d, None)
    out = Buf(72, fill=0); ol = ctypes.c_size_t(0)
    r = l.sm2_sign(key, Buf.of(_bytes(seed, "dgst", 32)), out, ctypes.byref(ol))
    return r, out.raw(min(ol.value, 72))


def _op_sm2_do_sign(l, seed, n):
    d = _d(seed, "k"); key = key_in(d, None)
    out = Buf(64, fill=0)
    r = l.sm2_do_sign(key, Buf.of(_bytes(seed, "dgst", 32)), out)
    return r, out.raw()


def _op_sm2_sign_fixlen(l, seed, n):
    d = _d(seed, "k"); key = key_in(d, None)
    out = Buf(71, fill=0)
    r = l.sm2_sign_fixlen(key, Buf.of(_bytes(seed, "dgst", 32)), 71, out)
    return r, out.raw()


def _op_sm2_sign_ctx(l, seed, n):
    d = _d(seed, "k"); key = key_in(d, None)
    c = obj("SM2_SIGN_CTX")
    r = l.sm2_sign_init(c, key, Buf.of(M.DEFAULT_ID), 16)
    if r != 1:
        return r, b""
    msg = _bytes(seed, "msg", n)
    l.sm2_sign_update(c, Buf.of(msg), len(msg))
    out = Buf(72, fill=0); ol = ctypes.c_size_t(0)
    r = l.sm2_sign_finish(c, out, ctypes.byref(ol))
    return r, out.raw(min(ol.value, 72))


def _op_sm2_encrypt(l, seed, n):
    d = _d(seed, "k"); key = key_in(None, M.pub_of(d))
    pt = _bytes(seed, "pt", max(1, n % 200))
    out = Buf(366, fill=0); ol = ctypes.c_size_t(0)
    r = l.sm2_encrypt(key, Buf.of(pt), len(pt), out, ctypes.byref(ol))
    return r, out.raw(min(ol.value, 366))


def _op_sm2_encrypt_fixlen(l, seed, n):
    d = _d(seed, "k"); key = key_in(None, M.pub_of(d))
    pt = _bytes(seed, "pt", max(1, n % 200))
    out = Buf(366, fill=0); ol = ctypes.c_size_t(0)
    r = l.sm2_encrypt_fixlen(key, Buf.of(pt), len(pt), 69, out, ctypes.byref(ol))
    return r, out.raw(min(ol.value, 366))


def _op_sm2_encrypt_ctx(l, seed, n):
    d = _d(seed, "k"); key = key_in(None, M.pub_of(d))
    pt = _bytes(seed, "pt", max(1, n % 200))
    c = obj("SM2_ENC_CTX")
    r = l.sm2_encrypt_init(c)
    if r != 1:
        return r, b""
    l.sm2_encrypt_update(c, Buf.of(pt), len(pt))
    out = Buf(366, fill=0); ol = ctypes.c_size_t(0)
    r = l.sm2_encrypt_finish(c, key, out, ctypes.byref(ol))
    return r, out.raw(min(ol.value, 366))


def _op_pkcs8_encrypt(l, seed, n):
    d = _d(seed, "k"); key = key_in(d, None)
    out = Buf(1024, fill=0); op = ctypes.c_void_p(out.ptr); ol = ctypes.c_size_t(0)
    r = l.sm2_private_key_info_encrypt_to_der(key, Buf.of(b"password-%d\0" % seed), ctypes.byref(op), ctypes.byref(ol))
    return r, out.raw(min(ol.value, 1024))


def _op_sm9_sign_master(l, seed, n):
    mk = obj("SM9_SIGN_MASTER_KEY")
    r = l.sm9_sign_master_key_generate(mk)
    return r, mk.raw()


def _op_sm9_enc_master(l, seed, n):
    mk = obj("SM9_ENC_MASTER_KEY")
    r = l.sm9_enc_master_key_generate(mk)
    return r, mk.raw()



def _op_sm9_export(fn):
    """password-based export of an SM9 master / user key (EncryptedPrivateKeyInfo): a salt and an IV are drawn"""
    def op(l, seed, n, keys):
        mk, uk, idb = keys
        k = mk if "master" in fn else uk
        out = Buf(1024, fill=0); op_ = ctypes.c_void_p(out.ptr); ol = ctypes.c_size_t(0)
        r = getattr(l, fn)(k, Buf.of(b"password-%d\0" % seed), ctypes.byref(op_), ctypes.byref(ol))
        return r, out.raw(min(ol.value, 1024))
    return op


def _op_sm9_kem(l, seed, n, keys):
    mk, uk, idb = keys
    klen = 16 + n % 48
    kb = Buf(klen, fill=0); C = obj("SM9_Z256_POINT")
    r = l.sm9_kem_encrypt(mk, Buf.of(idb), len(idb), klen, kb, C)
    return r, kb.raw() + C.raw()


def _op_sm9_exch_1b(l, seed, n, keys):
    """initiator step 1A followed by responder step 1B: two ephemeral scalars"""
    mk, uk, idb = keys
    RA = obj("SM9_Z256_POINT"); rA = Buf(32, fill=0)
    r = l.sm9_exch_step_1A(mk, Buf.of(idb), len(idb), RA, rA)
    if r != 1:
        return r, b""
    klen = 16 + n % 48
    RB = obj("SM9_Z256_POINT"); sk = Buf(klen, fill=0)
    r = l.sm9_exch_step_1B(mk, Buf.of(b"bob"), 3, Buf.of(idb), len(idb), uk, RA, RB, sk, klen)
    return r, RA.raw() + RB.raw() + sk.raw()


def _x509_fixture(seed):
    from vlib import x509lib as X
    name = X.ref_name({"via": "add", "attrs": [{"t": "CN", "tag": X.PRINTABLE, "v": "op %d" % (seed % 1000)}]})
    return X, name, key_in(d=_d(seed, "issuer")), key_in(pub=M.pub_of(_d(seed, "subject")))


def _op_x509_cert_sign(l, seed, n):
    X, name, skey, pkey = _x509_fixture(seed)
    serial = _bytes(seed, "serial", 1 + n % 12); serial = bytes([serial[0] & 0x7F | 1]) + serial[1:]
    nb, sb, idb = Buf.of(name), Buf.of(serial), Buf.of(M.DEFAULT_ID)
    out = Buf(2048, fill=0); op_ = ctypes.c_void_p(out.ptr); ol = ctypes.c_size_t(0)
    r = l.x509_cert_sign_to_der(2, sb, len(serial), X.sm2sign_oid(l), nb, len(name), pki.T0, pki.T0 + 86400 * (1 + n), nb, len(name), pkey,
                                None, 0, None, 0, None, 0, skey, idb, 16, ctypes.byref(op_), ctypes.byref(ol))
    return r, out.raw(min(ol.value, 2048))


def _op_x509_req_sign(l, seed, n):
    X, name, skey, pkey = _x509_fixture(seed)
    nb, idb = Buf.of(name), Buf.of(M.DEFAULT_ID)
    out = Buf(2048, fill=0); op_ = ctypes.c_void_p(out.ptr); ol = ctypes.c_size_t(0)
    r = l.x509_req_sign_to_der(0, nb, len(name), pkey, Buf(1), 0, X.sm2sign_oid(l), skey, idb, 16, ctypes.byref(op_), ctypes.byref(ol))
    return r, out.raw(min(ol.value, 2048))


def _op_x509_crl_sign(l, seed, n):
    X, name, skey, pkey = _x509_fixture(seed)
    nb, idb = Buf.of(name), Buf.of(M.DEFAULT_ID)
    out = Buf(2048, fill=0); op_ = ctypes.c_void_p(out.ptr); ol = ctypes.c_size_t(0)
    r = l.x509_crl_sign_to_der(1, X.sm2sign_oid(l), nb, len(name), pki.T0, pki.T0 + 86400 * (1 + n), None, 0, None, 0,
                               skey, idb, 16, ctypes.byref(op_), ctypes.byref(ol))
    return r, out.raw(min(ol.value, 2048))


_SM9 = {}


def _sm9_keys(l, kind):
    """fixed master/user keys made under a fixed stream (not part of the measured operation)"""
    if kind not in _SM9:
        sh = shim()
        sh.stream(424242)
        idb = b"alice"
        if kind == "sign":
            mk = obj("SM9_SIGN_MASTER_KEY"); l.sm9_sign_master_key_generate(mk)
            uk = obj("SM9_SIGN_KEY"); l.sm9_sign_master_key_extract_key(mk, Buf.of(idb), len(idb), uk)
        else:
            mk = obj("SM9_ENC_MASTER_KEY"); l.sm9_enc_master_key_generate(mk)
            uk = obj("SM9_ENC_KEY"); l.sm9_enc_master_key_extract_key(mk, Buf.of(idb), len(idb), uk)
        sh.reset()
        _SM9[kind] = (mk, uk, idb)
    return _SM9[kind]


def _op_sm9_sign(l, seed, n, keys):
    mk, uk, idb = keys
    msg = _bytes(seed, "msg", n)
    sc = obj("SM9_SIGN_CTX"); l.sm9_sign_init(sc); l.sm9_sign_update(sc, Buf.of(msg), len(msg))
    sig = Buf(256, fill=0); sl = ctypes.c_size_t(0)
    r = l.sm9_sign_finish(sc, uk, sig, ctypes.byref(sl))
    return r, sig.raw(min(sl.value, 256))


def _op_sm9_encrypt(l, seed, n, keys):
    mk, uk, idb = keys
    pt = _bytes(seed, "pt", max(1, n % 200))
    ct = Buf(600, fill=0); cl = ctypes.c_size_t(0)
    r = l.sm9_encrypt(mk, Buf.of(idb), len(idb), Buf.of(pt), len(pt), ct, ctypes.byref(cl))
    return r, ct.raw(min(cl.value, 600))


def _op_sm9_exch_1a(l, seed, n, keys):
    mk, uk, idb = keys
    RA = Buf(96, fill=0); rA = Buf(32, fill=0)
    r = l.sm9_exch_step_1A(mk, Buf.of(b"bob"), 3, RA, rA)
    return r, RA.raw()


def _op_tls_cbc_encrypt(l, seed, n):
    h = obj("SM3_HMAC_CTX"); l.sm3_hmac_init(h, Buf.of(_bytes(seed, "mk", 32)), 32)
    ek = obj("SM4_KEY"); l.sm4_set_encrypt_key(ek, Buf.of(_bytes(seed, "ek", 16)))
    pl = _bytes(seed, "pl", n)
    hdr = bytes([23, 3, 3]) + len(pl).to_bytes(2, "big")
    out = Buf(16 + len(pl) + 32 + 16 + 16, fill=0); ol = ctypes.c_size_t(0)
    r = l.tls_cbc_encrypt(h, ek, Buf.of(bytes(8)), Buf.of(hdr), Buf.of(pl) if pl else Buf(1), len(pl), out, ctypes.byref(ol))
    return r, out.raw(min(ol.value, out.n))


def _op_tls_random(l, seed, n):
    out = Buf(32, fill=0)
    r = l.tls_random_generate(out)
    return r, out.raw()


def _op_tls_premaster(l, seed, n):
    out = Buf(48, fill=0)
    r = l.tls_pre_master_secret_generate(out, const("TLS_protocol_tlcp"))
    return r, out.raw()


# composite operations: one call makes several SM2 encryptions / signatures (one per recipient / signer)
def _cms_parties(l, seed, k, tag):
    from vlib import cmslib as CL
    ds = [_d(seed, "%s%d" % (tag, i)) for i in range(k)]
    certs = [CL.party_cert("%s %d/%d" % (tag, seed, i), "toolkit:C18 CA" if i % 2 else "C18 CA", ((1 + i) << 16) | ((seed & 0xFF) << 8) | 7, d) for i, d in enumerate(ds)]
    return ds, certs


def _op_cms_envelop(l, seed, n):
    k = 2 + n % 3
    ds, certs = _cms_parties(l, seed, k, "rcpt")
    cb = Buf.of(b"".join(certs))
    content = _bytes(seed, "content", 20)
    out = Buf(4096 + 600 * k, fill=0); ol = ctypes.c_size_t(0)
    r = l.cms_envelop(out, ctypes.byref(ol), cb, cb.n, const("OID_sm4_cbc"), Buf.of(_bytes(seed, "cek", 16)), 16, Buf.of(_bytes(seed, "iv", 16)), 16,
                      const("OID_cms_data"), Buf.of(content), len(content), None, 0, None, 0)
    return r, out.raw(ol.value) if r == 1 else b""


def _op_cms_sign(l, seed, n):
    from vlib import cmslib as CL
    k = 2 + n % 3
    ds, certs = _cms_parties(l, seed, k, "signer")
    arr, keep = CL.signers_array([(c, key_in(d, M.pub_of(d))) for c, d in zip(certs, ds)])
    content = _bytes(seed, "content", 20)
    out = Buf(4096 + 900 * k, fill=0); ol = ctypes.c_size_t(0)
    r = l.cms_sign(out, ctypes.byref(ol), arr, k, const("OID_cms_data"), Buf.of(content), len(content), None, 0)
    return r, out.raw(ol.value) if r == 1 else b""


def _op_cms_sign_and_envelop(l, seed, n):
    from vlib import cmslib as CL
    k = 2 + n % 2
    ds, certs = _cms_parties(l, seed, k, "signer")
    rds, rcerts = _cms_parties(l, seed, 2 + (n >> 1) % 2, "rcpt")
    arr, keep = CL.signers_array([(c, key_in(d, M.pub_of(d))) for c, d in zip(certs, ds)])
    cb = Buf.of(b"".join(rcerts))
    content = _bytes(seed, "content", 20)
    out = Buf(8192 + 1500 * k, fill=0); ol = ctypes.c_size_t(0)
    r = l.cms_sign_and_envelop(out, ctypes.byref(ol), arr, k, cb, cb.n, const("OID_sm4_cbc"), Buf.of(_bytes(seed, "cek", 16)), 16, Buf.of(_bytes(seed, "iv", 16)), 16,
                               const("OID_cms_data"), Buf.of(content), len(content), None, 0, None, 0, None, 0)
    return r, out.raw(ol.value) if r == 1 else b""


def _cms_nonce_values(op, seed, n, output):
    """values that are equal exactly when two SM2 nonces of this one message are equal: C1 of every RecipientInfo, and the nonce of
    every SignerInfo recovered with the signer's private key (k = s(1+d) + rd)"""
    from vlib import cmslib as CL
    m = CL.Msg(output)
    vals = []
    if m.rcpt_infos is not None:
        for (_ri, ek, _iss, _ser) in m.enc_keys():
            ct = D.parse_ct(ek.content)
            vals.append(("C1", ct[0], ct[1]))
    if m.signer_infos is not None:
        k = (2 + n % 3) if op == "cms_sign" else (2 + n % 2)
        ds, _ = _cms_parties(None, seed, k, "signer")
        for i, (_si, sig, _iss, _ser) in enumerate(m.signatures()):
            r_, s_ = D.parse_sig(sig.content)
            vals.append(("k", M.recover_k(ds[i], r_, s_)))
    return vals


def _op_sm2_encrypt_pre_compute(l, seed, n):
    pc = Buf(96 * 8, fill=0)
    r = l.sm2_encrypt_pre_compute(pc)
    return r, pc.raw()


def _op_sm2_fast_sign_pre_compute(l, seed, n):
    pc = Buf(64 * 32, fill=0)
    r = l.sm2_fast_sign_pre_compute(pc)
    return r, pc.raw()


PURE = {
    "sm2_encrypt_pre_compute": _op_sm2_encrypt_pre_compute, "sm2_fast_sign_pre_compute": _op_sm2_fast_sign_pre_compute,
    "cms_envelop": _op_cms_envelop, "cms_sign": _op_cms_sign, "cms_sign_and_envelop": _op_cms_sign_and_envelop,
    "sm2_key_generate": _op_sm2_keygen, "sm2_sign": _op_sm2_sign, "sm2_do_sign": _op_sm2_do_sign, "sm2_sign_fixlen": _op_sm2_sign_fixlen,
    "sm2_sign_ctx": _op_sm2_sign_ctx, "sm2_encrypt": _op_sm2_encrypt, "sm2_encrypt_fixlen": _op_sm2_encrypt_fixlen, "sm2_encrypt_ctx": _op_sm2_encrypt_ctx,
    "pkcs8_encrypt": _op_pkcs8_encrypt, "sm9_sign_master_key_generate": _op_sm9_sign_master, "sm9_enc_master_key_generate": _op_sm9_enc_master,
    "sm9_sign": _op_sm9_sign, "sm9_encrypt": _op_sm9_encrypt, "sm9_exch_step_1A": _op_sm9_exch_1a,
    "tls_cbc_encrypt": _op_tls_cbc_encrypt, "tls_random_generate": _op_tls_random, "tls_pre_master_secret_generate": _op_tls_premaster,
    "sm9_kem_encrypt": _op_sm9_kem, "sm9_exch_step_1B": _op_sm9_exch_1b,
    "x509_cert_sign_to_der": _op_x509_cert_sign, "x509_req_sign_to_der": _op_x509_req_sign, "x509_crl_sign_to_der": _op_x509_crl_sign,
}
SM9_KIND = {"sm9_sign": "sign", "sm9_encrypt": "enc", "sm9_exch_step_1A": "enc", "sm9_kem_encrypt": "enc", "sm9_exch_step_1B": "enc"}
for _fn, _kind in (("sm9_sign_master_key_info_encrypt_to_der", "sign"), ("sm9_sign_key_info_encrypt_to_der", "sign"),
                   ("sm9_enc_master_key_info_encrypt_to_der", "enc"), ("sm9_enc_key_info_encrypt_to_der", "enc")):
    PURE[_fn] = _op_sm9_export(_fn)
    SM9_KIND[_fn] = _kind
# operations whose first entropy draw is a scalar that has to lie in [1, n-1] (0 must be drawn again)
ZERO_DRAW_OPS = ("sm2_encrypt_pre_compute", "sm2_fast_sign_pre_compute", "sm2_key_generate", "sm2_sign", "sm2_do_sign", "sm2_sign_fixlen", "sm2_sign_ctx", "sm2_encrypt", "sm2_encrypt_fixlen", "sm2_encrypt_ctx",
                 "sm9_sign_master_key_generate", "sm9_enc_master_key_generate", "sm9_sign", "sm9_encrypt", "sm9_exch_step_1A",
                 "sm9_kem_encrypt", "sm9_exch_step_1B", "x509_cert_sign_to_der", "x509_req_sign_to_der", "x509_crl_sign_to_der")

pure_case = st.fixed_dictionaries({"op": st.sampled_from(sorted(PURE)), "seed": st.integers(0, 1 << 20), "n": st.integers(0, 300),
                                   "sa": st.integers(1, 1 << 40), "sb": st.integers(1, 1 << 40)})


def _call(l, op, seed, n):
    if op in SM9_KIND:
        return PURE[op](l, seed, n, _sm9_keys(l, SM9_KIND[op]))
    return PURE[op](l, seed, n)


@P.sub("pure", pure_case, quick=940, thorough=12000, chunk=40)
def pure(case, ctx):
    """library operations: determinism on one stream, dependence on the stream, failure at every draw index"""
    l = lib(ctx.variant)
    sh = shim()
    sh.freeze_time(pki.T0)
    op, seed, n = case["op"], case["seed"], case["n"]
    if op in SM9_KIND:
        _sm9_keys(l, SM9_KIND[op])
    if case["sa"] == case["sb"]:
        return
    try:
        sh.stream(case["sa"]); r1, o1 = _call(l, op, seed, n); D1 = sh.draws()
        sh.stream(case["sa"]); r2, o2 = _call(l, op, seed, n); D2 = sh.draws()
        sh.stream(case["sb"]); r3, o3 = _call(l, op, seed, n)
    finally:
        sh.reset()
    ctx.case(nontrivial=D1 >= 1, classes=[op, "draws=%d" % min(D1, 40)], ident=["dry", op, seed, n, case["sa"]], sample=dict(case, draws=D1))
    ctx.check(r1 == 1 and D1 >= 1, "%s did not succeed or drew no entropy on the dry run (ret=%d, draws=%d)" % (op, r1, D1), "dry/" + op)
    ctx.check(r2 == 1 and o2 == o1 and D2 == D1, "%s: same entropy stream and clock gave different output (%d vs %d draws)" % (op, D1, D2), "same-stream/" + op)
    ctx.check(r3 == 1 and o3 != o1, "%s: a different entropy stream gave the same output" % op, "other-stream/" + op)
    if op.startswith("cms_"):
        nv = _cms_nonce_values(op, seed, n, o1)
        ctx.check(len(set(nv)) == len(nv) and len(nv) >= 2, "%s: one message carries %d SM2 nonce-derived values of which only %d are distinct: %s" %
                  (op, len(nv), len(set(nv)), [v[0] + ":" + ("%x" % v[1])[:16] for v in nv]), "nonce-reuse/" + op)
        ctx.check(D1 >= len(nv), "%s made %d randomised SM2 operations from only %d entropy draws" % (op, len(nv), D1), "nonce-reuse/draws/" + op)
    # fail closed at every draw index
    for i in range(min(D1, 80)):
        try:
            sh.stream(case["sa"]); sh.fail_at(i)
            rf, of = _call(l, op, seed, n)
        finally:
            sh.reset()
        ctx.case(nontrivial=True, classes=["fail:" + op], ident=["fail", op, seed, n, case["sa"], i])
        ctx.check(rf != 1, "%s reports success (ret=%d) although entropy draw %d of %d failed; output %s" % (op, rf, i, D1, of[:48].hex()),
                  "fail-open/%s/draw%d" % (op, i if i < 3 else 3))
    # a degenerate draw: the source answers the first scalar draw with 32 zero bytes (k = 0 / r = 0 is outside [1, n-1] and must be drawn
    # again).  The operation may fail; if it reports success its output must be what the same stream gives without the zero draw - an
    # output that is neither is built on something that was never drawn (or on the zero scalar itself)
    if op in ZERO_DRAW_OPS:
        try:
            sh.stream(case["sa"], bytes(32)); rz, oz = _call(l, op, seed, n)
        finally:
            sh.reset()
        ctx.case(nontrivial=True, classes=["zero-draw:" + op, "zero-draw:" + ("redrawn" if rz == 1 else "refused")], ident=["zero-draw", op, seed, n, case["sa"]])
        ctx.check(rz != 1 or oz == o1, "%s: with the first scalar draw answered by 32 zero bytes the operation reports success with an output (%s...) that differs from "
                  "the one the same stream gives without the zero draw (%s...)" % (op, oz[:24].hex(), o1[:24].hex()), "zero-draw/" + op)
    # the other way a source fails: interrupted (EINTR) for a while - draws #i .. #i+K-1 fail, then the source works again (a failing draw
    # consumes nothing of the stream).  An implementation may give up (return != 1) or retry; if it reports success, what it produced must be
    # what the undisturbed stream produces - success built on bytes it never received is the violation.
    import errno as _errno
    for i in sorted({0, D1 - 1, (case["sa"] % D1) if D1 else 0}):
        if i < 0 or i >= min(D1, 80):
            continue
        for K in (1, 40):
            try:
                sh.stream(case["sa"]); sh.fail_at(i, err=_errno.EINTR, count=K)
                rf, of = _call(l, op, seed, n)
            finally:
                sh.reset()
            ctx.case(nontrivial=True, classes=["fail-EINTRx%d:%s" % (K, op), "eintr:" + ("gave-up" if rf != 1 else "retried")], ident=["fail-eintr", K, op, seed, n, case["sa"], i])
            ctx.check(rf != 1 or of == o1, "%s reports success (ret=%d) after entropy draws #%d..#%d failed with EINTR, and its output differs from the output on the "
                      "undisturbed stream: it used bytes it never received; output %s" % (op, rf, i, i + K - 1, of[:48].hex()), "fail-open/%s/EINTR" % op)


# ---------------------------------------------------------------------------
hist_case = st.fixed_dictionaries({"op": st.sampled_from(["sm2_sign_ctx", "sm2_sign_ctx", "sm2_encrypt_ctx", "sm2_sign", "sm2_encrypt", "tls_cbc_encrypt", "sm9_sign", "sm9_encrypt",
                                                          "sm2_encrypt_precomp", "sm2_sign_precomp"]),
                                   "seed": st.integers(0, 1 << 20), "stream": st.integers(1, 1 << 40), "reps": st.integers(40, 200),
                                   # signing context: which finish call ends each repetition (variable-length, fixed-length, or both in turn)
                                   "fix": st.sampled_from(["never", "never", "always", "mixed", "mixed"]),
                                   # entropy faults inside the history: (operation index, draw offset within that operation)
                                   # biased to the refill points of the pre-computed nonce pools (32 signatures, 8 encryptions)
                                   "faults": st.lists(st.tuples(st.one_of(st.sampled_from([7, 8, 9, 15, 16, 31, 32, 33, 63, 64, 65, 96]), st.integers(0, 199)),
                                                                st.integers(0, 40)), max_size=3)})


@P.sub("history", hist_case, quick=96, thorough=600, chunk=4)
def history(case, ctx):
    """many repetitions on one entropy stream (one context where there is one): no nonce-derived value repeats"""
    l = lib(ctx.variant)
    sh = shim()
    op, seed = case["op"], case["seed"]
    reps = case["reps"]
    vals = []
    faults = {}
    for (at, off) in case["faults"]:
        faults.setdefault(at % reps, off)
    failed_ops = 0

    def arm(i):
        """make draw number (draws so far + offset) fail once; the operation it hits must report failure"""
        if i in faults:
            sh.fail_at(sh.draws() + faults[i])
            return True
        return False
    if op in SM9_KIND:
        keys = _sm9_keys(l, SM9_KIND[op])
    try:
        sh.stream(case["stream"])
        if op == "sm2_sign_ctx":
            d = _d(seed, "k"); key = key_in(d, None)
            c = obj("SM2_SIGN_CTX")
            assert l.sm2_sign_init(c, key, Buf.of(M.DEFAULT_ID), 16) == 1
            for i in range(reps):
                if i:
                    l.sm2_sign_reset(c)
                l.sm2_sign_update(c, b"same message", 12)
                out = Buf(72, fill=0); ol = ctypes.c_size_t(0)
                before = sh.draws()
                armed = arm(i)
                fx = case.get("fix", "never")
                fixed = fx == "always" or (fx == "mixed" and (seed + i * 7) % 3 != 0)
                if fixed:
                    ol.value = (71, 71, 70, 72, 71)[(seed + i) % 5]
                    r = l.sm2_sign_finish_fixlen(c, ol.value, out)
                else:
                    r = l.sm2_sign_finish(c, out, ctypes.byref(ol))
                hit = armed and sh.draws() > before + faults[i]      # the armed draw was really requested
                sh.fail_at(-1)
                if hit:
                    failed_ops += 1
                    ctx.check(r != 1, "sm2_sign_finish%s succeeded although an entropy draw failed (repetition %d)" % ("_fixlen" if fixed else "", i), "hist/fail-open/" + op)
                    continue
                if fixed and r != 1:
                    ctx.note("fixlen-gave-up")     # 200 tries without a signature of the requested length: a documented outcome
                    continue
                ctx.check(r == 1, "sm2_sign_finish failed in repetition %d" % i, "hist/ret")
                vals.append(D.parse_sig(out.raw(ol.value))[0])      # r = e + x1: same e, so equal r means equal nonce
        elif op == "sm2_encrypt_ctx":
            d = _d(seed, "k"); key = key_in(None, M.pub_of(d))
            c = obj("SM2_ENC_CTX")
            assert l.sm2_encrypt_init(c) == 1
            for i in range(reps):
                if i:
                    l.sm2_encrypt_reset(c)
                l.sm2_encrypt_update(c, b"same", 4)
                out = Buf(366, fill=0); ol = ctypes.c_size_t(0)
                before = sh.draws()
                armed = arm(i)
                r = l.sm2_encrypt_finish(c, key, out, ctypes.byref(ol))
                hit = armed and sh.draws() > before + faults[i]
                sh.fail_at(-1)
                if hit:
                    failed_ops += 1
                    ctx.check(r != 1, "sm2_encrypt_finish succeeded although an entropy draw failed (repetition %d)" % i, "hist/fail-open/" + op)
                    continue
                ctx.check(r == 1, "sm2_encrypt_finish failed in repetition %d" % i, "hist/ret")
                vals.append(D.parse_ct(out.raw(ol.value))[:2])
        elif op in ("sm2_encrypt_precomp", "sm2_sign_precomp"):
            # the public pre-computed interfaces: a batch of nonces is drawn at once (8 encryption pairs, 32 signing pairs) and every
            # pair of every batch is then used exactly once, as the contexts do; no nonce may come back within a batch or across batches
            enc = op == "sm2_encrypt_precomp"
            d = _d(seed, "k")
            num, size = (8, 96) if enc else (32, 64)
            if enc:
                key = key_in(None, M.pub_of(d))
            else:
                fp = Buf(32, fill=0)
                assert l.sm2_fast_sign_compute_key(key_in(d, None), fp) == 1
            batches = max(2, reps // (8 if enc else 16))
            for i in range(batches):
                pc = Buf(size * num, fill=0)
                before = sh.draws()
                armed = arm(i)
                r = l.sm2_encrypt_pre_compute(pc) if enc else l.sm2_fast_sign_pre_compute(pc)
                hit = armed and sh.draws() > before + faults[i]
                sh.fail_at(-1)
                if hit:
                    failed_ops += 1
                    ctx.check(r != 1, "%s succeeded although an entropy draw failed (batch %d)" % (op, i), "hist/fail-open/" + op)
                    continue
                ctx.check(r == 1, "%s: pre-computation failed in batch %d" % (op, i), "hist/ret")
                raw = pc.raw()
                for j in range(num):
                    slot = Buf.of(raw[size * j:size * (j + 1)])
                    if enc:
                        cb = Buf(sizeof("SM2_CIPHERTEXT"), fill=0)
                        r2 = l.sm2_do_encrypt_ex(key, slot, Buf.of(b"same"), 4, cb)
                        if r2 != 1:
                            ctx.note("encrypt-ex-refused")      # the all-zero KDF output: a documented outcome
                            continue
                        vals.append(cb.raw(64))                   # C1 = [k]G
                    else:
                        so = Buf(64, fill=0)
                        r2 = l.sm2_fast_sign(fp, slot, Buf.of(_bytes(seed, "dgst", 32)), so)
                        ctx.check(r2 == 1, "sm2_fast_sign failed (batch %d pair %d)" % (i, j), "hist/ret")
                        vals.append(so.raw(32))                   # r = e + x1: same e, so equal r means equal nonce
            reps = batches * num
        else:
            for i in range(reps):
                before = sh.draws()
                armed = arm(i)
                r, o = _call(l, op, seed, 20)
                hit = armed and sh.draws() > before + faults[i]
                sh.fail_at(-1)
                if hit:
                    failed_ops += 1
                    ctx.check(r != 1, "%s succeeded although an entropy draw failed (repetition %d)" % (op, i), "hist/fail-open/" + op)
                    continue
                ctx.check(r == 1, "%s failed in repetition %d" % (op, i), "hist/ret")
                if op == "sm2_sign":
                    vals.append(D.parse_sig(o)[0])
                elif op == "sm2_encrypt":
                    vals.append(D.parse_ct(o)[:2])
                elif op == "tls_cbc_encrypt":
                    vals.append(o[:16])
                else:
                    vals.append(o)
    finally:
        sh.reset()
    ctx.note("operations-hit-by-an-entropy-fault", failed_ops)
    ctx.case(nontrivial=True, classes=[op, "with-faults" if failed_ops else "fault-free"] + (["finish:" + case.get("fix", "never")] if op == "sm2_sign_ctx" else []), ident=["hist", op, seed, case["stream"], reps, sorted(faults.items()), case.get("fix")], n=reps, sample=case)
    ctx.check(len(set(map(repr, vals))) == len(vals), "%s: a nonce-derived value repeated within %d operations on one entropy stream (%d of them hit by an entropy fault and correctly failed)" % (op, reps, failed_ops),
              "hist/repeat/" + op + ("/after-fault" if failed_ops else ""))


# ---------------------------------------------------------------------------
_PKI = {}


def _pki(proto, role):
    k = (proto, role)
    if k not in _PKI:
        ch = pki.Chain("c18-%s-%s" % k, n_inter=1 if role == "server" else 0, tlcp=(proto == "tlcp" and role == "server"), role=role)
        _PKI[k] = ch.write(os.path.join(B.BUILD, "tmp", "c18_%d" % os.getpid(), "%s_%s" % k))
    return _PKI[k]


def _hs(ctx, proto, mutual, seed, who=None, fail_at=None, script=b"", quiet=600):
    """run one handshake; returns dict(client ret, server ret, records sent by `who`, draws of `who` as list of bytes)"""
    shim().freeze_time(pki.T0)
    recs = {"c2s": [], "s2c": []}

    def hook(rec):
        recs[rec.dir].append(rec.raw)
        return [rec.raw]
    kw = {}
    if who and script:
        kw["client_script" if who == "client" else "server_script"] = script
    s = net.Session(ctx.variant, proto, _pki(proto, "server"), client_files=_pki(proto, "client") if mutual else None, mutual=mutual,
                    hook=hook, quiet_ms=quiet, seed=seed, fail=(who, fail_at) if fail_at is not None else None, **kw)
    try:
        rc, rs = s.start()
        hc, hs = s.handshake(timeout=30.0)
        ep = s.client if who == "client" else s.server
        draws = ep.do("draws")[1] if who else []
        return {"c": hc, "s": hs, "sent": recs["c2s" if who == "client" else "s2c"], "draws": draws}
    finally:
        s.finish()


hs_case = st.fixed_dictionaries({"proto": st.sampled_from(net.PROTOS), "mutual": st.booleans(), "who": st.sampled_from(["client", "server"]), "seed": st.integers(0, 7)})


@P.sub("handshake", hs_case, quick=48, thorough=480, chunk=3)
def handshake(case, ctx):
    """every entropy draw of one handshake endpoint fails in turn: it must fail and send nothing that depends on the missing randomness"""
    proto, mutual, who, seed = case["proto"], case["mutual"], case["who"], case["seed"]
    base = _hs(ctx, proto, mutual, seed, who, quiet=None)
    if base["c"][0] == "timeout" or base["s"][0] == "timeout":
        ctx.note("inconclusive-timeout"); return
    ctx.check(base["c"][1] == 1 and base["s"][1] == 1, "fault-free handshake failed", "hs/baseline")
    draws = [x for x in base["draws"] if x is not None]
    Dn = len(draws)
    ctx.case(nontrivial=Dn >= 1, classes=[proto, who, "mutual" if mutual else "server-auth", "draws=%d" % Dn], ident=["base", proto, mutual, who, seed],
             sample=dict(case, draws=Dn, draw_lengths=[len(x) for x in draws]))
    same = _hs(ctx, proto, mutual, seed, who, quiet=None)
    ctx.check(same["sent"] == base["sent"], "%s %s: same entropy stream and clock produced a different transcript" % (proto, who), "hs/same-stream/%s/%s" % (proto, who))
    for i in range(Dn):
        # which records depend on draws >= i: replay the first i draws, then another stream
        # draw i itself is complemented (guaranteed to differ in every byte), later draws come from another stream
        script = b"".join(draws[:i]) + bytes(x ^ 0xFF for x in draws[i]) + hashlib.shake_128(b"alt%d" % i).digest(sum(len(x) for x in draws[i:]) + 64)
        alt = _hs(ctx, proto, mutual, seed, who, script=script, quiet=None)
        first_dep = next((j for j, (a, b) in enumerate(zip(base["sent"], alt["sent"])) if a != b), min(len(base["sent"]), len(alt["sent"])))
        ctx.check(alt["sent"] != base["sent"], "%s %s: changing the entropy from draw %d on did not change anything the endpoint sent" % (proto, who, i),
                  "hs/other-stream/%s/%s" % (proto, who))
        res = _hs(ctx, proto, mutual, seed, who, fail_at=i)
        ctx.case(nontrivial=True, classes=["fail:%s/%s" % (proto, who)], ident=["fail", proto, mutual, who, seed, i])
        if res["c"][0] == "timeout" or res["s"][0] == "timeout":
            ctx.note("inconclusive-timeout"); continue
        own = res["c"] if who == "client" else res["s"]
        ctx.check(own[1] != 1, "%s %s reports a completed handshake although its entropy draw %d of %d (%d bytes) failed" % (proto, who, i, Dn, len(draws[i])),
                  "fail-open/hs/%s/%s/completed" % (proto, who))
        # records sent in the failing run: its non-alert records must be a prefix of the fault-free transcript that ends
        # before the first record depending on the failed draw; alerts (type 21) are allowed
        non_alert = [r for r in res["sent"] if r[0] != 21]
        ctx.check(len(non_alert) <= first_dep,
                  "%s %s sent %d non-alert record(s) although only the first %d do not depend on the failed draw %d (%d bytes) - a message built on unfilled randomness left the endpoint (record type %d, %d bytes)" %
                  (proto, who, len(non_alert), first_dep, i, len(draws[i]), non_alert[first_dep][0] if len(non_alert) > first_dep else 0,
                   len(non_alert[first_dep]) if len(non_alert) > first_dep else 0),
                  "fail-open/hs/%s/%s/draw%d-len%d" % (proto, who, i, len(draws[i])))
        ctx.check(non_alert == base["sent"][:len(non_alert)], "records sent before the failed draw differ from the fault-free transcript", "hs/prefix")
