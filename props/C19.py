"""C19 - secret material never appears on diagnostic channels."""
import base64, ctypes, hashlib, os, struct, tempfile
from hypothesis import strategies as st
from vlib.core import Prop
from vlib import build as B
from vlib.ffi import lib, Buf, obj, sizeof, shim, helper, const
from vlib.ref import sm2 as M
from vlib.ref import sigder as D
from vlib.ref import x509 as X
from vlib.ref import sm4ks
from vlib.sm2io import key_in
from vlib import pki, net

P = Prop("C19", "exploration",
         rule="Hypothesis draws an operation from a catalogue of secret-handling public operations (SM2 key generation, import from DER/PEM, "
              "sign, decrypt, ECDH; PKCS#8 open with right and wrong password; SM9 key generation/extraction/sign/decrypt; the three handshakes "
              "on both roles with success and failure paths, application record send/receive; error paths with corrupted inputs) with generated "
              "key material. File descriptors 1 and 2 are redirected to files around the operation (libc stdio flushed), and the captured bytes "
              "are scanned for every >= 8 byte window of every secret the harness knows (private scalars, passwords, plaintexts, pre-master and "
              "master secrets, key blocks, TLS 1.3 traffic keys/IVs) in raw, hex (upper/lower, with ':' or ' ' separators), limb-hex and base64 "
              "form. Non-trivial: the operation handled >= 1 secret; distinct by (operation, instance).",
         variants=("asan",),
         assumptions=["default build configuration (no ENABLE_TLS_DEBUG)", "explicit print/export calls of the secret object itself are not in the catalogue",
                      "windows with fewer than 4 distinct byte values are ignored (zero padding is not a secret)"])


class Capture:
    """redirect fd 1 and fd 2 of the whole process into a file while the operation runs"""

    def __enter__(self):
        helper()[0].vh_fflush_all()
        self.tmp = tempfile.TemporaryFile(dir=os.path.join(B.BUILD, "tmp") if os.path.isdir(os.path.join(B.BUILD, "tmp")) else None)
        self.saved = (os.dup(1), os.dup(2))
        os.dup2(self.tmp.fileno(), 1)
        os.dup2(self.tmp.fileno(), 2)
        return self

    def __exit__(self, *a):
        helper()[0].vh_fflush_all()
        os.dup2(self.saved[0], 1); os.dup2(self.saved[1], 2)
        os.close(self.saved[0]); os.close(self.saved[1])
        self.tmp.seek(0)
        self.data = self.tmp.read()
        self.tmp.close()
        return False


def _forms(window):
    hx = window.hex()
    yield "raw", window
    yield "hex", hx.encode()
    yield "HEX", hx.upper().encode()
    for sep in (":", " "):
        s = sep.join(hx[i:i + 2] for i in range(0, len(hx), 2))
        yield "hex" + sep, s.encode()
        yield "HEX" + sep, s.upper().encode()


def scan(output, secrets):
    """-> list of (name, form, offset) for every secret window found in output"""
    hits = []
    if not output:
        return hits
    for name, sec in secrets.items():
        sec = bytes(sec)
        if len(sec) < 8:
            continue
        seen = False
        for off in range(0, len(sec) - 7):
            w = sec[off:off + 8]
            if len(set(w)) < 4:
                continue
            for form, pat in _forms(w):
                if pat in output:
                    hits.append((name, form, off))
                    seen = True
                    break
            if seen:
                break
        if not seen and len(sec) >= 12:
            b64 = base64.b64encode(sec)
            # base64 of the secret at the three possible alignments (inner part only)
            for sh in range(3):
                enc = base64.b64encode(b"\0" * sh + sec)[4 if sh else 0:-4]
                if len(enc) >= 12 and enc in output:
                    hits.append((name, "base64", sh))
                    break
    return hits


def _d(seed, label):
    return int.from_bytes(hashlib.sha256(b"c19/%d/%s" % (seed, label.encode())).digest(), "big") % (M.N - 2) + 1


OPS = ["sm2_keygen", "sm2_sign", "sm2_sign_ctx", "sm2_sign_ctx_long", "sm2_sign_ctx_long", "sm2_encrypt_ctx_long", "sm2_decrypt", "sm2_decrypt_bad", "sm2_ecdh", "sm2_ecdh_peer", "sm2_ecdh_peer", "sm2_import_der", "sm2_import_bad", "sm2_import_mismatch", "pem_key_damaged", "pem_key_damaged", "sm4_stream_dec", "sm4_stream_dec", "sm4_stream_dec", "sm4_stream_dec",
       "cms_open_0", "cms_open_1", "cms_open_2", "cms_open_3", "cms_open_4", "cms_open_5", "cms_open_6", "cms_open_6", "cms_open_7", "tls_ctx_keys", "tls_ctx_keys", "hex_key_bad", "tlcp_cke_badlen", "tlcp_cke_badlen",
       "pkcs8_open", "pkcs8_wrong_password", "sm9_key_open", "sm9_key_open_wrong_password", "sm9_key_open_wrong_password", "sm9_key_open_damaged", "sm9_key_open_damaged", "sm9_sign", "sm9_decrypt", "sm9_keygen",
       "hs_tlcp", "hs_tls12", "hs_tls13", "hs_tlcp_mutual", "hs_tls12_mutual", "hs_tls13_mutual",
       "hs_tlcp_untrusted", "hs_tls12_untrusted", "hs_tls13_untrusted", "hs_tls12_badclient",
       # a record is altered in flight (handshake phase or application phase): the failure paths of record protection
       "hs_tlcp_tamper", "hs_tls12_tamper", "hs_tls13_tamper", "hs_tls13_mutual_tamper", "hs_tlcp_apptamper", "hs_tls12_apptamper", "hs_tls13_apptamper",
       # CBC records whose padding-length octet is altered in flight (the claim then reaches into MAC and data): the padding failure path
       "hs_tlcp_apptamper_padlen", "hs_tlcp_apptamper_padlen", "hs_tlcp_apptamper_padlen", "hs_tls12_apptamper_padlen", "hs_tls12_apptamper_padlen", "hs_tls12_apptamper_padlen",
       # the connection dies inside an application record (header and part of the body arrive, then EOF) after data was exchanged
       "hs_tlcp_appcut", "hs_tls12_appcut", "hs_tls13_appcut", "hs_tls13_appcut",
       # one side closes (tls_shutdown) while data sent by the peer is still unread in flight
       "hs_tlcp_shutunread", "hs_tls12_shutunread", "hs_tls13_shutunread",
       # the transport dies under an established connection, then both sides try to send (and to read): the failure paths of sending
       "hs_tlcp_sendfail", "hs_tls12_sendfail", "hs_tls13_sendfail", "hs_tls12_mutual_sendfail"]
case_s = st.fixed_dictionaries({"op": st.sampled_from(OPS), "seed": st.integers(0, 1 << 20), "n": st.integers(1, 200)})

_PKI = {}


def _pki(proto, role, tag="c19"):
    k = (proto, role, tag)
    if k not in _PKI:
        ch = pki.Chain("%s-%s-%s" % (tag, proto, role), n_inter=1 if role == "server" else 0, tlcp=(proto == "tlcp" and role == "server"), role=role)
        _PKI[k] = (ch, ch.write(os.path.join(B.BUILD, "tmp", "c19_%d" % os.getpid(), "%s_%s_%s" % k)))
    return _PKI[k]


def _handshake(ctx, proto, mutual, defect, seed, secrets, padlen=False):
    shim().freeze_time(pki.T0)
    sch, sfiles = _pki(proto, "server")
    cch, cfiles = _pki(proto, "client")
    secrets["server sign key"] = M.i2b(sch.keys["leaf"][0])
    if proto == "tlcp":
        secrets["server enc key"] = M.i2b(sch.keys["enc"][0])
    secrets["key password"] = pki.PASSWORD
    kw = {}
    if mutual:
        secrets["client sign key"] = M.i2b(cch.keys["leaf"][0])
    if defect == "untrusted":
        kw["client_cafile"] = _pki(proto, "server", "c19other")[1]["root"]
    if defect == "badclient":
        kw["server_cafile"] = _pki(proto, "server", "c19other")[1]["root"]
    state = {"app": False, "n": 0, "cut": False}
    if defect == "appcut":
        cutdir = "c2s" if seed & 1 else "s2c"

        def hook(rec):
            if not state["cut"] or rec.dir != cutdir:
                return [rec.raw]
            state["cut"] = False
            body = rec.raw[5:]
            k = (seed >> 4) % max(1, len(body))
            if seed & 2:      # the header announces more than the sender ever had
                L = min(16384 + 256, len(body) + 1 + (seed >> 8) % 4000)
                return [rec.raw[:3] + L.to_bytes(2, "big") + body[:k]]
            return [rec.raw[:5] + body[:k]]
        kw["hook"] = hook
    if defect in ("tamper", "apptamper"):
        # TLCP / TLS 1.2 have two protected handshake records (the Finished messages) before the application records
        target = seed % 7 if proto == "tls13" else seed % 4

        def hook(rec):
            if defect == "apptamper" and not state["app"]:
                return [rec.raw]
            # only protected records are interesting: TLS 1.3 outer type 23, or anything after ChangeCipherSpec
            if defect == "tamper" and not (rec.raw[0] == 23 or (rec.raw[0] == 22 and len(rec.raw) in (85, 101))):
                return [rec.raw]
            i = state["n"]; state["n"] += 1
            if i == (target % 3 if defect == "apptamper" else target):
                b = bytearray(rec.raw)
                hv = int.from_bytes(hashlib.sha256(b"c19 padlen %d" % seed).digest()[:4], "big")     # generated seeds are mostly small numbers
                if defect == "apptamper" and proto != "tls13" and (hv & 1 or padlen) and len(b) >= 5 + 48:
                    # CBC records: the octet that decrypts to the padding length (last octet of the last-but-one block) gets any other
                    # value - the receiver then sees a padding claim of 0..255 octets reaching into MAC and data
                    b[len(b) - 17] ^= 1 + (hv >> 1) % 255
                    state["padlen"] = True
                else:
                    b[5 + (seed >> 3) % (len(b) - 5)] ^= 1 << (seed & 7)
                return [bytes(b)]
            return [rec.raw]
        kw["hook"] = hook
    s = net.Session(ctx.variant, proto, sfiles, client_files=cfiles if mutual else None, mutual=mutual, quiet_ms=600, seed=seed, **kw)
    payload = hashlib.shake_128(b"c19 payload %d" % seed).digest(120)
    try:
        rc, rs = s.start()
        hc, hs = s.handshake(timeout=30.0)
        ok = hc[0] != "timeout" and hs[0] != "timeout" and hc[1] == 1 and hs[1] == 1
        if ok:
            secrets["application plaintext"] = payload
            secrets["application plaintext (reply)"] = payload[::-1]
            state["app"] = True
            for _ in range(3):
                s.client.do("send", payload)
                s.server.do("recv", 4096, timeout=10.0)
                s.server.do("send", payload[::-1])
                s.client.do("recv", 4096, timeout=10.0)
                if defect != "apptamper":
                    break
            if defect == "shutunread":
                snd, rcv = (s.client, s.server) if seed & 1 else (s.server, s.client)
                late = hashlib.shake_128(b"c19 late %d" % seed).digest(150)
                secrets["application plaintext (unread at close)"] = late
                snd.do("send", late)
                if seed & 2:
                    snd.do("send", late[::-1])
                    secrets["application plaintext (unread at close, 2)"] = late[::-1]
                rcv.do("shutdown", timeout=10.0)
                snd.do("recv", 4096, timeout=10.0)
            if defect == "sendfail":
                s.proxy.close_all()
                order = (s.client, s.server) if seed & 1 else (s.server, s.client)
                for j, ep in enumerate(order):
                    for k in range(1 + (seed >> 1) % 2):
                        late = hashlib.shake_128(b"c19 dead %d/%d/%d" % (seed, j, k)).digest(64 + 40 * k)
                        secrets["application plaintext (sent into a dead transport, %d/%d)" % (j, k)] = late
                        ep.do("send", late, timeout=10.0)
                    if seed & 4:
                        ep.do("recv", 4096, timeout=10.0)
                    if seed & 8:
                        ep.do("shutdown", timeout=10.0)
            if defect == "appcut":
                snd, rcv = (s.client, s.server) if seed & 1 else (s.server, s.client)
                state["cut"] = True
                snd.do("send", hashlib.shake_128(b"c19 cut %d" % seed).digest(200))
                snd.do("close")
                rcv.do("recv", 4096, timeout=10.0)
                rcv.do("recv", 4096, timeout=10.0)
        # whatever the endpoints derived is secret, completed or not
        for ep, nm in ((s.client, "client"), (s.server, "server")):
            if ep.conn is None:
                continue
            secrets[nm + " master_secret"] = ep.field("master_secret")
            kb = ep.field("key_block")
            secrets[nm + " key_block mac keys"] = kb[:64]
            secrets[nm + " key_block enc keys"] = kb[64:96]
            if proto == "tls13":
                secrets[nm + " client_write_iv"] = ep.field("client_write_iv")
                secrets[nm + " server_write_iv"] = ep.field("server_write_iv")
                # the raw traffic keys are not stored, only their SM4 key schedule: invert it
                if sm4ks.OK:
                    for f in ("client_write_key", "server_write_key"):
                        rk = struct.unpack("<32I", ep.field(f)[:128])
                        if any(rk):
                            secrets[nm + " " + f] = sm4ks.key_from_round_keys(rk)
            # ephemeral private scalars / signature nonces (32-byte draws) and pre-master secrets (>= 40 byte draws) are
            # secret; 28-byte draws are hello randoms and 16-byte draws are explicit record IVs, both public on the wire
            dr = ep.do("draws")
            if dr[0] == "draws":
                for i, x in enumerate(dr[1]):
                    if proto == "tls13" and i == 0:
                        continue      # the TLS 1.3 hello random is a 32-byte draw and public
                    if x is not None and (len(x) == 32 or len(x) >= 40):
                        secrets["%s entropy draw #%d (%d bytes)" % (nm, i, len(x))] = x
                        if len(x) == 32:
                            secrets["%s entropy draw #%d as scalar" % (nm, i)] = x[::-1]
        if proto in ("tls12", "tls13"):
            # the ECDHE result (the pre-master secret of TLS 1.2, the (EC)DHE input of the TLS 1.3 key schedule) is stored nowhere;
            # it is recomputed from the ephemeral scalars, which are among the 32-byte entropy draws of the two endpoints
            scal = {}
            for nm in ("client", "server"):
                scal[nm] = [(k, int.from_bytes(v, "big")) for k, v in secrets.items() if k.startswith(nm + " entropy draw") and k.endswith("as scalar")]
            for kc, dc in scal["client"]:
                for ks, dsv in scal["server"]:
                    if 0 < dc < M.N and 0 < dsv < M.N:
                        pt = M.mul(dc * dsv % M.N, M.G)
                        if pt is not None:
                            tag = "ECDHE shared point (%s x %s)" % (kc.split(" as ")[0], ks.split(" as ")[0])
                            secrets[tag + " x"] = M.i2b(pt[0])
                            secrets[tag + " y"] = M.i2b(pt[1])
        return ok
    finally:
        s.finish()


@P.sub("ops", case_s, quick=760, thorough=26000, chunk=40)
def ops(case, ctx):
    """one catalogue operation with fd 1/2 captured; output scanned for every known secret"""
    l = lib(ctx.variant)
    sh = shim()
    op, seed = case["op"], case["seed"]
    secrets = {}
    os.makedirs(os.path.join(B.BUILD, "tmp"), exist_ok=True)
    with Capture() as cap:
        if op.startswith("hs_"):
            parts = op.split("_")
            proto = parts[1]
            mutual = "mutual" in parts or "badclient" in parts
            defect = next((x for x in ("untrusted", "badclient", "apptamper", "appcut", "shutunread", "sendfail", "tamper") if x in parts), None)
            _handshake(ctx, proto, mutual, defect, seed, secrets, padlen="padlen" in parts)
            # the random values sent in the clear (hello randoms, key shares' public part) are not secrets, but the first
            # 32-byte draws also contain them: keep only draws that never appear on the wire - decided below by exclusion
        else:
            d = _d(seed, op)
            pub = M.pub_of(d)
            key = key_in(d, pub)
            msg = hashlib.shake_128(b"c19 msg %d" % seed).digest(case["n"])
            secrets["sm2 private key"] = M.i2b(d)
            secrets["sm2 private key (limbs)"] = d.to_bytes(32, "little")
            sh.stream(seed)
            try:
                if op == "sm2_keygen":
                    k = obj("SM2_KEY")
                    l.sm2_key_generate(k)
                    secrets = {"generated private key (limbs)": k.raw(32, 96), "generated private key": k.raw(32, 96)[::-1]}
                elif op == "sm2_sign":
                    out = Buf(72); ol = ctypes.c_size_t(0)
                    l.sm2_sign(key, Buf.of(hashlib.sha256(msg).digest()), out, ctypes.byref(ol))
                    secrets["nonce"] = sh.log()[:32][::-1]
                    secrets["nonce (limbs)"] = sh.log()[:32]
                elif op == "sm2_sign_ctx":
                    c = obj("SM2_SIGN_CTX")
                    l.sm2_sign_init(c, key, Buf.of(M.DEFAULT_ID), 16)
                    l.sm2_sign_update(c, Buf.of(msg), len(msg))
                    out = Buf(72); ol = ctypes.c_size_t(0)
                    l.sm2_sign_finish(c, out, ctypes.byref(ol))
                elif op in ("sm2_sign_ctx_long", "sm2_encrypt_ctx_long"):
                    # one long-lived context: enough operations to use up the pre-computed nonce pairs (32 signing, 8 encryption pairs)
                    # and have them renewed once or several times
                    sign = op == "sm2_sign_ctx_long"
                    reps = (1, 31, 32, 33, 34, 40, 64, 65, 66, 97)[case["n"] % 10] if sign else (1, 7, 8, 9, 10, 16, 17, 24, 25, 33)[case["n"] % 10]
                    c = obj("SM2_SIGN_CTX" if sign else "SM2_ENC_CTX")
                    if sign:
                        l.sm2_sign_init(c, key, Buf.of(M.DEFAULT_ID), 16)
                    else:
                        l.sm2_encrypt_init(c)
                        secrets["plaintext"] = msg[:min(len(msg), 200)] if len(msg) >= 16 else msg.ljust(16, b"\x5a")
                    for i in range(reps):
                        if i:
                            (l.sm2_sign_reset if sign else l.sm2_encrypt_reset)(c)
                        if sign:
                            l.sm2_sign_update(c, Buf.of(msg), len(msg))
                            out = Buf(72); ol = ctypes.c_size_t(0)
                            if (seed + i) % 5 == 4:
                                l.sm2_sign_finish_fixlen(c, 71, out)
                            else:
                                l.sm2_sign_finish(c, out, ctypes.byref(ol))
                        else:
                            pt = secrets["plaintext"]
                            l.sm2_encrypt_update(c, Buf.of(pt), len(pt))
                            out = Buf(400); ol = ctypes.c_size_t(0)
                            l.sm2_encrypt_finish(c, key, out, ctypes.byref(ol))
                    for i in range(min(sh.draws(), 6)):
                        dr = sh.draw(i)
                        if dr is not None and len(dr) == 32:
                            secrets["nonce draw %d (limbs)" % i] = dr
                            secrets["nonce draw %d" % i] = dr[::-1]
                    ctx.note("long-lived-context-operations", reps)
                elif op in ("sm2_decrypt", "sm2_decrypt_bad"):
                    pt = msg[:min(len(msg), 200)]
                    secrets["plaintext"] = pt
                    kk = _d(seed, "k")
                    while M.encrypt_with_k(pub, pt, kk) is None:
                        kk += 1
                    (x1, y1), c3, c2 = M.encrypt_with_k(pub, pt, kk)
                    ct = D.enc_ct(x1, y1, c3, c2)
                    if op == "sm2_decrypt_bad":
                        b = bytearray(ct); b[-1] ^= 1; ct = bytes(b)
                    out = Buf(255); ol = ctypes.c_size_t(0)
                    l.sm2_decrypt(key, Buf.of(ct), len(ct), out, ctypes.byref(ol))
                elif op == "sm2_ecdh":
                    peer = M.pub_of(_d(seed, "peer"))
                    out = Buf(64)
                    oc = b"\x04" + M.i2b(peer[0]) + M.i2b(peer[1])
                    l.sm2_ecdh(key, Buf.of(oc), 65, out)
                    sp = M.mul(d, peer)
                    secrets["ecdh shared point"] = M.i2b(sp[0]) + M.i2b(sp[1])
                elif op == "sm2_ecdh_peer":
                    # peer shares that stand in a relation to the caller's own key: the own public key reflected back, its negative, the
                    # generator, a small multiple, an off-curve point (refused), in uncompressed and compressed form, and at point level
                    rel = ("own", "own", "neg-own", "generator", "double-own", "off-curve", "small")[case["n"] % 7]
                    peer = {"own": pub, "neg-own": (pub[0], M.P - pub[1]), "generator": M.G, "double-own": M.mul(2 * d % M.N, M.G),
                            "off-curve": (pub[0], (pub[1] + 1) % M.P), "small": M.mul(1 + seed % 5, M.G)}[rel]
                    form = (seed >> 3) % 3
                    out = Buf(64)
                    if form == 0:
                        oc = b"\x04" + M.i2b(peer[0]) + M.i2b(peer[1])
                        l.sm2_ecdh(key, Buf.of(oc), 65, out)
                    elif form == 1:
                        oc = bytes([2 + (peer[1] & 1)]) + M.i2b(peer[0])
                        l.sm2_ecdh(key, Buf.of(oc), 33, out)
                    elif rel != "off-curve":
                        from vlib.sm2io import pt_in
                        o3 = Buf(96)
                        l.sm2_do_ecdh(key, pt_in(peer, 1 + (seed >> 5) % 3), o3)
                    if rel != "off-curve":
                        sp = M.mul(d, peer)
                        if sp is not None:
                            secrets["ecdh shared point"] = M.i2b(sp[0]) + M.i2b(sp[1])
                    ctx.note("peer:" + rel)
                elif op in ("sm2_import_der", "sm2_import_bad"):
                    der = D.enc_pkcs8(M.i2b(d), b"\x04" + M.i2b(pub[0]) + M.i2b(pub[1]))
                    if op == "sm2_import_bad":
                        der = der[:-3] + b"\xff\xff\xff"         # public key does not match: error path
                    k = obj("SM2_KEY")
                    db = Buf.of(der); ip = ctypes.c_void_p(db.ptr); il = ctypes.c_size_t(len(der))
                    ap = ctypes.c_void_p(); al = ctypes.c_size_t()
                    l.sm2_private_key_info_from_der(k, ctypes.byref(ap), ctypes.byref(al), ctypes.byref(ip), ctypes.byref(il))
                elif op == "sm2_import_mismatch":
                    # a well-formed private key whose embedded public key is a valid point of ANOTHER key (a stale / foreign public
                    # key): refused on a path that holds both the scalar and the points, through every importer
                    other = M.pub_of(_d(seed, "other"))
                    ooc = b"\x04" + M.i2b(other[0]) + M.i2b(other[1])
                    k = obj("SM2_KEY")
                    how = seed % 3
                    if how == 0:
                        der = D.enc_pkcs8(M.i2b(d), ooc)
                        db = Buf.of(der); ip = ctypes.c_void_p(db.ptr); il = ctypes.c_size_t(len(der))
                        ap = ctypes.c_void_p(); al = ctypes.c_size_t()
                        r = l.sm2_private_key_info_from_der(k, ctypes.byref(ap), ctypes.byref(al), ctypes.byref(ip), ctypes.byref(il))
                    elif how == 1:
                        der = D.enc_ec_private_key(M.i2b(d), ooc)
                        db = Buf.of(der); ip = ctypes.c_void_p(db.ptr); il = ctypes.c_size_t(len(der))
                        r = l.sm2_private_key_from_der(k, ctypes.byref(ip), ctypes.byref(il))
                    else:
                        pw = b"Secret-pass-%d" % seed
                        secrets["password"] = pw
                        pem = pki.key_pem(d, other, password=pw, variant=ctx.variant)
                        path = os.path.join(B.BUILD, "tmp", "c19_%d_key.pem" % os.getpid())
                        open(path, "wb").write(pem)
                        dll = helper()[0]
                        fp = dll.vh_fopen(path.encode(), b"r")
                        r = l.sm2_private_key_info_decrypt_from_pem(k, Buf.of(pw + b"\0"), fp)
                        dll.vh_fclose(fp)
                    if r == 1:
                        ctx.note("mismatch-imported")      # C12's business; the error path was not reached in this case
                elif op == "pem_key_damaged":
                    # an unencrypted private key PEM file (EC PRIVATE KEY / PKCS#8 PRIVATE KEY) with one damaged place in its body: a character
                    # outside the base64 alphabet, padding in the middle, a deleted character, a cut line, a wrong footer
                    form = seed % 2
                    ooc = b"\x04" + M.i2b(pub[0]) + M.i2b(pub[1])
                    der = D.enc_ec_private_key(M.i2b(d), ooc) if form == 0 else D.enc_pkcs8(M.i2b(d), ooc)
                    label = b"EC PRIVATE KEY" if form == 0 else b"PRIVATE KEY"
                    body = bytearray(base64.b64encode(der))
                    pos = (seed >> 1) % len(body)
                    kind = (seed >> 9) % 6
                    if kind == 0:
                        body[pos] = b"*! \x01\x7f~"[(seed >> 12) % 6]
                    elif kind == 1:
                        body[pos] = ord("=")
                    elif kind == 2:
                        del body[pos]
                    elif kind == 3:
                        body = body[:pos]
                    elif kind == 4:
                        body[pos:pos] = b"\r"
                    lines = b"\n".join(bytes(body[i:i + 64]) for i in range(0, len(body), 64))
                    foot = label if kind != 5 else b"PUBLIC KEY"
                    pem = b"-----BEGIN " + label + b"-----\n" + lines + b"\n-----END " + foot + b"-----\n"
                    path = os.path.join(B.BUILD, "tmp", "c19_%d_dkey.pem" % os.getpid())
                    open(path, "wb").write(pem)
                    dll = helper()[0]
                    fp = dll.vh_fopen(path.encode(), b"r")
                    k = obj("SM2_KEY")
                    r = (l.sm2_private_key_from_pem if form == 0 else l.sm2_private_key_info_from_pem)(k, fp)
                    dll.vh_fclose(fp)
                    os.unlink(path)
                    ctx.note("damaged-pem-" + ("imported" if r == 1 else "refused"))
                elif op.startswith("cms_open_"):
                    # opening CMS messages (EncryptedData, EnvelopedData, SignedAndEnvelopedData): success, wrong key / wrong recipient, damaged
                    # ciphertext, damaged signature - the content, the content-encryption key and the private keys must stay off the channels
                    from vlib import cmslib as CL
                    sh.reset()
                    sh.freeze_time(pki.T0)
                    scen = int(op[-1])
                    content = hashlib.shake_128(b"c19 cms content %d" % seed).digest(40 + case["n"])
                    cek = hashlib.shake_128(b"c19 cms cek %d" % seed).digest(16)
                    iv = hashlib.shake_128(b"c19 cms iv %d" % seed).digest(16)
                    rd_, sd_, od_ = _d(seed, "cms-rcpt"), _d(seed, "cms-signer"), _d(seed, "cms-outsider")
                    rcert = CL.party_cert("c19 rcpt %d" % seed, "C19 CA", 0x100 + (seed & 0xFF), rd_)
                    scert = CL.party_cert("c19 signer %d" % seed, "C19 CA", 0x200 + (seed & 0xFF), sd_)
                    ocert = CL.party_cert("c19 outsider %d" % seed, "C19 CA", 0x300 + (seed & 0xFF), od_)
                    secrets = {"cms content": content, "cms content-encryption key": cek, "recipient private key": M.i2b(rd_), "signer private key": M.i2b(sd_)}
                    ctype = const("OID_cms_data")
                    msg_ = None
                    if scen in (0, 1):
                        _r, msg_ = CL.encrypt(l, cek, iv, ctype, content, None, None)
                        key_ = cek if scen == 0 else bytes(b ^ 0x5A for b in cek)
                        assert msg_ is not None, "cms_encrypt failed"
                        r, _o = CL.decrypt(l, msg_, key_)
                    elif scen in (2, 3, 4):
                        _r, msg_ = CL.envelop(l, [rcert], cek, iv, ctype, content, None, None, seed + 1)
                        if scen == 4:
                            b_ = bytearray(msg_); b_[-1 - (seed >> 3) % 16] ^= 1 << ((seed >> 7) & 7); msg_ = bytes(b_)
                        who = (rd_, rcert) if scen != 3 else (od_, ocert)
                        secrets["outsider private key"] = M.i2b(od_)
                        r, _o = CL.deenvelop(l, msg_, key_in(who[0], M.pub_of(who[0])), who[1])
                    else:
                        _r, msg_ = CL.sign_and_envelop(l, [(scert, key_in(sd_, M.pub_of(sd_)))], [rcert], cek, iv, ctype, content, None, None, seed + 2)
                        if scen == 6:
                            b_ = bytearray(msg_); b_[-1 - (seed >> 3) % 24] ^= 1 << ((seed >> 8) & 7); msg_ = bytes(b_)
                        who = (rd_, rcert) if scen != 7 else (od_, ocert)
                        secrets["outsider private key"] = M.i2b(od_)
                        r, _o = CL.deenvelop_and_verify(l, msg_, key_in(who[0], M.pub_of(who[0])), who[1])
                    ctx.note("cms-open-scenario-%d-%s" % (scen, "opened" if r == 1 else "refused"))
                elif op == "sm4_stream_dec":
                    # streaming decryption (SM4-CBC, SM4-GCM, SM4-CBC / SM4-CTR with SM3-HMAC) of an intact, cut-off, lengthened or altered
                    # stream, or under another key, in several update calls: key and plaintext must stay off the channels on every path
                    import props.C05 as A5
                    sh.reset()
                    mode = ("cbc", "cbc", "gcm", "cbc_hmac", "ctr_hmac")[seed % 5]
                    damage = ("none", "cut", "cut", "cut", "flip", "other-key", "lengthened")[(seed >> 3) % 7]
                    pt = hashlib.shake_128(b"c19 stream pt %d" % seed).digest(20 + 3 * case["n"])
                    key16 = hashlib.shake_128(b"c19 stream key %d" % seed).digest(16)
                    key48 = key16 + hashlib.shake_128(b"c19 stream mac key %d" % seed).digest(32)
                    iv = hashlib.shake_128(b"c19 stream iv %d" % seed).digest(16)
                    aad = hashlib.shake_128(b"c19 stream aad %d" % seed).digest(seed % 7)
                    secrets = {"stream plaintext": pt, "sm4 key": key16}

                    def cuts_of(nbytes):
                        a = sorted({(seed >> 5) % (nbytes + 1), (seed >> 11) % (nbytes + 1), (seed * 7 >> 3) % (nbytes + 1)})
                        out_, prev = [], 0
                        for c_ in a + [nbytes]:
                            out_.append(c_ - prev); prev = c_
                        return out_
                    if mode == "cbc":
                        c = obj("SM4_CBC_CTX")
                        l.sm4_cbc_encrypt_init(c, Buf.of(key16), Buf.of(iv))
                        ob = Buf(len(pt) + 32); ol = ctypes.c_size_t(0)
                        l.sm4_cbc_encrypt_update(c, Buf.of(pt), len(pt), ob, ctypes.byref(ol)); wire = ob.raw(ol.value)
                        ob = Buf(32); l.sm4_cbc_encrypt_finish(c, ob, ctypes.byref(ol)); wire += ob.raw(ol.value)
                    elif mode == "gcm":
                        secrets["gcm key"] = key16
                        ok_, wire = A5.run_stream(l, "sm4_gcm", "SM4_GCM_CTX", {"key": key16, "taglen": 16}, iv[:12], aad, pt, [len(pt)], True, lambda k_: (Buf.of(k_["key"]), 16))
                    else:
                        secrets["hmac key"] = key48[16:]
                        pre = "sm4_cbc_sm3_hmac" if mode == "cbc_hmac" else "sm4_ctr_sm3_hmac"
                        ok_, wire = A5.run_stream(l, pre, pre.upper() + "_CTX", key48, iv, aad, pt, [len(pt)], True, lambda k_: (Buf.of(k_),))
                    k16, k48 = key16, key48
                    if damage == "cut":
                        wire = wire[:len(wire) - 1 - (seed >> 7) % min(len(wire) - 1, 40)]
                    elif damage == "flip":
                        b_ = bytearray(wire); b_[(seed >> 7) % len(b_)] ^= 1 << (seed & 7); wire = bytes(b_)
                    elif damage == "lengthened":
                        wire += hashlib.shake_128(b"c19 extra %d" % seed).digest(1 + seed % 20)
                    elif damage == "other-key":
                        k16 = bytes(b ^ 0xA5 for b in key16); k48 = k16 + key48[16:]
                    parts = cuts_of(len(wire))
                    if mode == "cbc":
                        c = obj("SM4_CBC_CTX")
                        l.sm4_cbc_decrypt_init(c, Buf.of(k16), Buf.of(iv))
                        off = 0
                        for p_ in parts:
                            ob = Buf(p_ + 32); ol = ctypes.c_size_t(0)
                            l.sm4_cbc_decrypt_update(c, Buf.of(wire[off:off + p_]) if p_ else Buf(1), p_, ob, ctypes.byref(ol)); off += p_
                        ob = Buf(32); ol = ctypes.c_size_t(0)
                        r = l.sm4_cbc_decrypt_finish(c, ob, ctypes.byref(ol))
                    elif mode == "gcm":
                        r, _o = A5.run_stream(l, "sm4_gcm", "SM4_GCM_CTX", {"key": k16, "taglen": 16}, iv[:12], aad, wire, parts, False, lambda k_: (Buf.of(k_["key"]), 16))
                    else:
                        r, _o = A5.run_stream(l, pre, pre.upper() + "_CTX", k48, iv, aad, wire, parts, False, lambda k_: (Buf.of(k_),))
                    ctx.note("stream-dec/%s/%s/%s" % (mode, damage, "accepted" if r in (1, True, "late") else "refused"))
                elif op in ("sm9_key_open", "sm9_key_open_wrong_password", "sm9_key_open_damaged"):
                    # password-protected SM9 keys (master and user keys, sign and enc): exported, then opened with the right password, a
                    # wrong one, or the right one on a damaged container - passwords, the derived key and the key material stay off the channels
                    kind = seed % 4
                    idb = b"user-%d" % seed
                    pw = b"Sm9-secret-pass-%d" % seed
                    if kind < 2:
                        mk = obj("SM9_SIGN_MASTER_KEY"); l.sm9_sign_master_key_generate(mk)
                        uk = obj("SM9_SIGN_KEY"); l.sm9_sign_master_key_extract_key(mk, Buf.of(idb), len(idb), uk)
                        names = ("sm9_sign_master_key", "sm9_sign_key")
                        types = ("SM9_SIGN_MASTER_KEY", "SM9_SIGN_KEY")
                    else:
                        mk = obj("SM9_ENC_MASTER_KEY"); l.sm9_enc_master_key_generate(mk)
                        uk = obj("SM9_ENC_KEY"); l.sm9_enc_master_key_extract_key(mk, Buf.of(idb), len(idb), uk)
                        names = ("sm9_enc_master_key", "sm9_enc_key")
                        types = ("SM9_ENC_MASTER_KEY", "SM9_ENC_KEY")
                    which = kind & 1
                    keyobj = (mk, uk)[which]
                    out = Buf(2048, fill=0); op_ = ctypes.c_void_p(out.ptr); ol = ctypes.c_size_t(0)
                    r = getattr(l, names[which] + "_info_encrypt_to_der")(keyobj, Buf.of(pw + b"\0"), ctypes.byref(op_), ctypes.byref(ol))
                    der = out.raw(ol.value)
                    secrets = {"sm9 master secret (limbs)": mk.raw(32, 0), "sm9 master secret": mk.raw(32, 0)[::-1], "password": pw,
                               "sm9 key object": keyobj.raw(64, 0)}
                    # the key PBKDF2-HMAC-SM3 derives from the password and the salt inside the container
                    try:
                        i_ = der.index(bytes.fromhex("0410"))
                        salt = der[i_ + 2:i_ + 18]
                        secrets["key derived from the password"] = hashlib.pbkdf2_hmac("sm3", pw, salt, 65536, 16)
                    except (ValueError, Exception):
                        pass
                    use = pw
                    if op == "sm9_key_open_wrong_password":
                        use = b"Sm9-wrong-pass-%d" % seed
                        secrets["offered password"] = use
                    elif op == "sm9_key_open_damaged":
                        b_ = bytearray(der); b_[-1 - (seed >> 4) % 40] ^= 1 << ((seed >> 10) & 7); der = bytes(b_)
                    if r == 1:
                        k2 = obj(types[which])
                        db = Buf.of(der); ip = ctypes.c_void_p(db.ptr); il = ctypes.c_size_t(len(der))
                        r2 = getattr(l, names[which] + "_info_decrypt_from_der")(k2, Buf.of(use + b"\0"), ctypes.byref(ip), ctypes.byref(il))
                        ctx.note("sm9-key-open/%s/%s" % (op, "opened" if r2 == 1 else "refused"))
                elif op == "tlcp_cke_badlen":
                    # a TLCP client (scripted, vlib/peer12.py) whose ClientKeyExchange wraps a value that is not 48 bytes long under the server's
                    # encryption certificate: the server decrypts it with its private key before it can refuse it
                    from vlib import peer12 as S12
                    L = [16, 32, 47, 49, 64, 1, 128][seed % 7]
                    wrapped = hashlib.shake_128(b"c19 cke %d" % seed).digest(L)
                    secrets = {"value wrapped in ClientKeyExchange (decrypted by the server)": wrapped}
                    orig = S12.ScriptedClient._cke

                    def bad_cke(self):
                        pub = S12.cert_pubkey(self.server_certs[1]) if len(self.server_certs) > 1 else None
                        if pub is None:
                            raise S12.Stop("cannot", "no encryption certificate from the server")
                        self.derive((wrapped + bytes(48))[:48])
                        self.pms_known = True
                        return S12.u16(S12.sm2_encrypt(pub, wrapped, self.rng))
                    S12.ScriptedClient._cke = bad_cke
                    try:
                        res = S12.run(ctx.variant, "tlcp", "server" if seed & 8 else "server-noauth", "honest" if seed & 8 else "honest-noauth",
                                      inst=seed % 3, n_inter=(seed >> 4) & 1, seed=seed, idle=6.0)
                    finally:
                        S12.ScriptedClient._cke = orig
                    if res.get("lib") == 1:
                        ctx.note("cke-badlen-completed")
                elif op == "hex_key_bad":
                    # key material given as hex text (what the command line tools do with -key / -iv) with a typing error: odd length or a
                    # character outside [0-9a-fA-F]; the refusal must not echo the text
                    kb = hashlib.shake_128(b"c19 hexkey %d" % seed).digest(16 + (seed % 3) * 8)
                    secrets = {"key given as hex": kb}
                    text = kb.hex().encode() if seed & 8 else kb.hex().upper().encode()
                    how = seed % 4
                    if how == 0:
                        text = text[:-1]
                    elif how == 1:
                        text = text + b"0"
                    elif how == 2:
                        text = text[:-1] + b"g"
                    else:
                        text = text[:len(text) // 2] + b" " + text[len(text) // 2 + 1:]
                    out = Buf(len(text), fill=0); ol = ctypes.c_size_t(0)
                    l.hex_to_bytes(Buf.of(text), len(text), out, ctypes.byref(ol))
                elif op == "tls_ctx_keys":
                    # loading certificate chains and password-protected keys into a TLS_CTX: success and every refusal (wrong
                    # password, key that does not match its certificate, missing file, single-certificate chain for TLCP)
                    tlcp = (seed >> 3) & 1
                    scen = ["ok", "wrong-sign-password", "wrong-enc-password", "sign-key-mismatch", "enc-key-mismatch", "missing-key-file",
                            "one-cert-chain", "swapped-keys"][seed % 8]
                    ch, files = _pki("tlcp" if tlcp else "tls12", "server")
                    ds, de = ch.keys["leaf"][0], (ch.keys["enc"][0] if tlcp else None)
                    other = _d(seed, "other")
                    pw_s, pw_e = b"Sign-pass-%d" % seed, b"Enc-pass-%d" % seed
                    secrets = {"sign key password": pw_s, "server sign key": M.i2b(ds), "foreign key": M.i2b(other)}
                    if tlcp:
                        secrets["enc key password"] = pw_e
                        secrets["server enc key"] = M.i2b(de)
                    tmpd = os.path.join(B.BUILD, "tmp", "c19_%d_ctx" % os.getpid())
                    os.makedirs(tmpd, exist_ok=True)

                    def wr(name, data):
                        pth = os.path.join(tmpd, name)
                        open(pth, "wb").write(data)
                        return pth.encode()
                    skey = (other, M.pub_of(other)) if scen == "sign-key-mismatch" else ch.keys["leaf"]
                    if tlcp:
                        ekey = (other, M.pub_of(other)) if scen == "enc-key-mismatch" else ch.keys["enc"]
                        if scen == "swapped-keys":
                            skey, ekey = ch.keys["enc"], ch.keys["leaf"]
                    kf = wr("sign.pem", pki.key_pem(skey[0], skey[1], password=pw_s, variant=ctx.variant))
                    chainf = files["chain"]
                    if scen == "one-cert-chain":
                        chainf = wr("one.pem", X.pem("CERTIFICATE", ch.certs["leaf"]))
                    if scen == "missing-key-file":
                        kf = os.path.join(tmpd, "does-not-exist.pem").encode()
                    c = obj("TLS_CTX")
                    l.tls_ctx_init(c, const("TLS_protocol_tlcp") if tlcp else const("TLS_protocol_tls12"), const("TLS_server_mode"))
                    use_s = pw_s if scen != "wrong-sign-password" else b"Wrong-pass-%d" % seed
                    if tlcp:
                        ef = wr("enc.pem", pki.key_pem(ekey[0], ekey[1], password=pw_e, variant=ctx.variant))
                        use_e = pw_e if scen != "wrong-enc-password" else b"Wrong-pass-%d" % seed
                        secrets["offered passwords"] = use_s + b" " + use_e
                        l.tls_ctx_set_tlcp_server_certificate_and_keys(c, chainf, kf, Buf.of(use_s + b"\0"), ef, Buf.of(use_e + b"\0"))
                    else:
                        l.tls_ctx_set_certificate_and_key(c, chainf, kf, Buf.of(use_s + b"\0"))
                    l.tls_ctx_cleanup(c)
                elif op in ("pkcs8_open", "pkcs8_wrong_password"):
                    pw = b"Secret-pass-%d" % seed
                    secrets["password"] = pw
                    pem = pki.key_pem(d, pub, password=pw, variant=ctx.variant)
                    path = os.path.join(B.BUILD, "tmp", "c19_%d_key.pem" % os.getpid())
                    open(path, "wb").write(pem)
                    dll = helper()[0]
                    fp = dll.vh_fopen(path.encode(), b"r")
                    k = obj("SM2_KEY")
                    use = pw if op == "pkcs8_open" else b"Wrong-pass-%d" % seed
                    secrets["offered password"] = use
                    l.sm2_private_key_info_decrypt_from_pem(k, Buf.of(use + b"\0"), fp)
                    dll.vh_fclose(fp)
                elif op in ("sm9_sign", "sm9_decrypt", "sm9_keygen"):
                    idb = b"user-%d" % seed
                    if op == "sm9_decrypt":
                        mk = obj("SM9_ENC_MASTER_KEY"); l.sm9_enc_master_key_generate(mk)
                        uk = obj("SM9_ENC_KEY"); l.sm9_enc_master_key_extract_key(mk, Buf.of(idb), len(idb), uk)
                        secrets = {"sm9 master secret (limbs)": mk.raw(32, 0), "sm9 master secret": mk.raw(32, 0)[::-1], "plaintext": msg}
                        ct = Buf(512); cl = ctypes.c_size_t(0)
                        l.sm9_encrypt(mk, Buf.of(idb), len(idb), Buf.of(msg), len(msg), ct, ctypes.byref(cl))
                        out = Buf(512); ol = ctypes.c_size_t(0)
                        l.sm9_decrypt(uk, Buf.of(idb), len(idb), ct, cl.value, out, ctypes.byref(ol))
                    else:
                        mk = obj("SM9_SIGN_MASTER_KEY"); l.sm9_sign_master_key_generate(mk)
                        uk = obj("SM9_SIGN_KEY"); l.sm9_sign_master_key_extract_key(mk, Buf.of(idb), len(idb), uk)
                        secrets = {"sm9 master secret (limbs)": mk.raw(32, 0), "sm9 master secret": mk.raw(32, 0)[::-1]}
                        if op == "sm9_sign":
                            sc = obj("SM9_SIGN_CTX"); l.sm9_sign_init(sc); l.sm9_sign_update(sc, Buf.of(msg), len(msg))
                            sig = Buf(256); sl = ctypes.c_size_t(0)
                            l.sm9_sign_finish(sc, uk, sig, ctypes.byref(sl))
            finally:
                sh.reset()
    out = cap.data
    ctx.case(nontrivial=bool(secrets), classes=[op, "output" if out else "silent"], ident=[op, seed], sample={"op": op, "seed": seed, "output_bytes": len(out)})
    ctx.note("captured-bytes", len(out))
    hits = scan(out, secrets)
    for name, form, off in hits:
        ctx.fail("operation %s wrote secret '%s' (%s form, window at byte %d) to stdout/stderr; %d bytes were captured, e.g. %r" %
                 (op, name, form, off, len(out), out[:160]), "leak/%s/%s" % (op.replace("_mutual", "").replace("_untrusted", "").replace("_badclient", "").replace("_apptamper", "").replace("_tamper", ""), name.split(" #")[0]))
