"""C09 - TLS peer authentication cannot be bypassed."""
import os, hashlib
from hypothesis import strategies as st
from vlib.core import Prop
from vlib import build as B
from vlib.ffi import shim
from vlib import pki, net
from vlib.ref import sm2 as M
from vlib.sm2io import key_in

P = Prop("C09", "fault_enumeration",
         rule="Defect matrix: protocol (TLCP, TLS 1.2, TLS 1.3) x verifying role (client verifies server / server verifies client) x credential "
              "defect (untrusted root; expired / not yet valid at leaf, intermediate, root; issuer without basicConstraints; issuer with cA=FALSE; "
              "certificate signature bit flipped; certificate signed by another key; private key does not match the certificate (sign key, TLCP "
              "encryption key); no client certificate configured; empty client certificate list; CertificateVerify by a wrong key) x chain depth, "
              "each cell instantiated with generated key/name material. The defective peer is a real library endpoint (doctored after tls_init "
              "where the public setters rightly refuse). Oracle: the verifying endpoint's tls_do_handshake returns != 1; the control cell (same "
              "machinery, no defect) completes on both sides. Non-trivial: defective cell whose control succeeded; distinct by cell + instance.",
         variants=("asan",),
         assumptions=["PKI built and signed by vlib/ref/x509.py", "clock frozen at pki.T0", "quiescence (600 ms without traffic) ends a run as 'failed'"])

DAY = pki.DAY

# (name, who is defective: 'server' (client verifies) or 'client' (server verifies), tweaks builder)
CERT_DEFECTS = {
    "untrusted-root": None,
    "leaf-expired": {"leaf": {"not_before": -30 * DAY, "not_after": -DAY}},
    "leaf-not-yet-valid": {"leaf": {"not_before": DAY, "not_after": 30 * DAY}},
    # outside the validity period by an hour / by a second only
    "leaf-expired-1h": {"leaf": {"not_before": -30 * DAY, "not_after": -3600}},
    "leaf-expired-1s": {"leaf": {"not_before": -30 * DAY, "not_after": -1}},
    "leaf-not-yet-valid-1h": {"leaf": {"not_before": 3600, "not_after": 30 * DAY}},
    "enc-expired-1h": {"enc": {"not_before": -30 * DAY, "not_after": -3600}},
    "ca-expired-1h": {"ca0": {"not_before": -30 * DAY, "not_after": -3600}},
    "ca-expired": {"ca0": {"not_before": -30 * DAY, "not_after": -DAY}},
    "root-expired": {"root": {"not_before": -300 * DAY, "not_after": -DAY}},
    "issuer-no-basic-constraints": {"ca0": {"ca": None}},
    # an issuer certificate that carries no extension at all (v3 without the extensions field, or v1): nothing says it is a CA
    "issuer-no-extensions": {"ca0": {"ca": None, "ku": None}},
    "issuer-v1-no-extensions": {"ca0": {"version": 0, "ca": None, "ku": None}},
    "issuer-ca-false": {"ca0": {"ca": False}},
    "issuer-ca-explicit-false": {"ca0": {"ca": "explicit-false", "path_len": None}},
    "issuer-no-keycertsign": {"ca0": {"ku": ["digitalSignature"]}},
    "issuer-crlsign-only": {"ca0": {"ku": ["cRLSign"]}},
    "issuer-ds-crlsign": {"ca0": {"ku": ["digitalSignature", "cRLSign"]}},
    "leaf-bad-signature": {"leaf": {"bad_sig": "flip"}},
    # a certificate that names another signature algorithm (inner and outer identifier alike) over a value nobody with the issuer's key made
    "leaf-foreign-sigalg": {"leaf": {"alg_inner": bytes.fromhex("300a06082a8648ce3d040302"), "alg_outer": bytes.fromhex("300a06082a8648ce3d040302"), "bad_sig": "flip"}},
    "leaf-foreign-sigalg-rsa": {"leaf": {"alg_inner": bytes.fromhex("300d06092a864886f70d01010b0500"), "alg_outer": bytes.fromhex("300d06092a864886f70d01010b0500"), "bad_sig": "flip"}},
    "ca-foreign-sigalg": {"ca0": {"alg_inner": bytes.fromhex("300a06082a8648ce3d040302"), "alg_outer": bytes.fromhex("300a06082a8648ce3d040302"), "bad_sig": "flip"}},
    "ca-bad-signature": {"ca0": {"bad_sig": "flip"}},
    "leaf-signed-by-other-key": {"leaf": {"signed_by": "root"}},
    "ca-signed-by-other-key": {"ca0": {"signed_by": "leaf"}},
    "leaf-is-ca-cert": {"leaf": {"ca": True, "ku": ["keyCertSign"]}},
    "leaf-unknown-critical-ext": {"leaf": {"unknown_ext": True}},
    "leaf-v1": {"leaf": {"version": 0, "ku": None}},
    "issuer-name-mismatch": {"leaf": {"issuer_cn": "somebody else"}},
    # TLCP only: defects of the server's encryption certificate (second certificate of the list)
    "enc-bad-signature": {"enc": {"bad_sig": "flip"}},
    "enc-signed-by-other-key": {"enc": {"signed_by": "leaf"}},
    "enc-expired": {"enc": {"not_before": -30 * DAY, "not_after": -DAY}},
    "enc-wrong-key-usage": {"enc": {"ku": ["digitalSignature"]}},
    # the peer sends its own self-signed root as last chain certificate; the verifier trusts a different root with the same name
    "impostor-root-in-chain": "impostor",
}
KEY_DEFECTS = ["sign-key-mismatch", "enc-key-mismatch", "no-client-cert", "empty-client-cert", "certificate-verify-wrong-key"]

CELLS = []
for proto in net.PROTOS:
    for who in ("server", "client"):
        for dname in CERT_DEFECTS:
            if dname.startswith("enc-") and not (proto == "tlcp" and who == "server"):
                continue
            CELLS.append((proto, who, dname))
        CELLS.append((proto, who, "sign-key-mismatch"))
    CELLS.append((proto, "server", "enc-key-mismatch") if proto == "tlcp" else None)
    CELLS.append((proto, "client", "no-client-cert"))
    CELLS.append((proto, "client", "empty-client-cert"))
CELLS = [c for c in CELLS if c]

_PKI = {}


def _chain(tag, proto, role, tweaks, n_inter=1, include_root=False):
    k = (tag, proto, role, repr(tweaks), n_inter, include_root)
    if k not in _PKI:
        ch = pki.Chain(tag, n_inter=n_inter, tlcp=(proto == "tlcp" and role == "server"), role=role, tweaks=tweaks)
        files = ch.write(os.path.join(B.BUILD, "tmp", "c09_%d" % os.getpid(), hashlib.sha1(repr(k).encode()).hexdigest()[:16]), include_root=include_root)
        _PKI[k] = (ch, files)
    return _PKI[k]


def _other_key_struct(label):
    d, pub = pki.key_of(label)
    return key_in(d, pub).raw()


def _run(ctx, proto, who, defect, inst, extra_inter, vdepth=None):
    """returns (client ret, server ret, stalled)"""
    shim().freeze_time(pki.T0)
    n_inter = max(0, 1 + extra_inter)
    if vdepth is not None:
        n_inter = min(n_inter, vdepth)      # the honest chain stays inside the configured verification depth
    tw = CERT_DEFECTS.get(defect) if defect in CERT_DEFECTS else None
    impostor = tw == "impostor"
    if impostor:
        tw = None
        n_inter = max(n_inter, 0)
    stag = "c09s-%s-%d" % (proto, inst)
    ctag = "c09c-%s-%d" % (proto, inst)
    sch, sfiles = _chain(stag, proto, "server", tw if (who == "server" and tw) else None, n_inter, include_root=impostor and who == "server")
    cch, cfiles = _chain(ctag, proto, "client", tw if (who == "client" and tw) else None, n_inter, include_root=impostor and who == "client")
    kw = {}
    client_cafile, server_cafile = "default", cfiles["root"]
    mutual = who == "client"
    if impostor:
        vtag = stag if who == "server" else ctag
        ich, ifiles = _chain("c09i-%s-%d" % (proto, inst), proto, "server", {"root": {"subject_cn": vtag + " root", "issuer_cn": vtag + " root"}}, 0)
        if who == "server":
            client_cafile = ifiles["root"]
        else:
            server_cafile = ifiles["root"]
    if defect == "untrusted-root":
        och, ofiles = _chain("c09o-%s-%d" % (proto, inst), proto, "server", None, 0)
        if who == "server":
            client_cafile = ofiles["root"]
        else:
            server_cafile = ofiles["root"]
    if defect == "sign-key-mismatch":
        blob = _other_key_struct("c09-wrong-sign-%d" % inst)
        doc = lambda ep: ep.set_field("sign_key", blob)
        kw["server_doctor" if who == "server" else "client_doctor"] = doc
    if defect == "enc-key-mismatch":
        blob = _other_key_struct("c09-wrong-enc-%d" % inst)
        kw["server_doctor"] = lambda ep: ep.set_field("kenc_key", blob)
    if defect == "empty-client-cert":
        kw["client_doctor"] = lambda ep: ep.set_field("client_certs_len", bytes(8))
    use_client_files = cfiles if (mutual and defect != "no-client-cert") else None
    if vdepth is not None:
        kw["depth"] = vdepth
    s = net.Session(ctx.variant, proto, sfiles, client_files=use_client_files, mutual=mutual and defect != "no-client-cert",
                    quiet_ms=600, seed=inst, client_cafile=client_cafile,
                    server_cafile=server_cafile if mutual else None, **kw)
    try:
        rc, rs = s.start()
        if rc[1] != "ok" or rs[1] != "ok":
            return ("setup-failed", rc, rs)
        hc, hs = s.handshake(timeout=30.0)
        return (hc, hs, s.proxy.stalled)
    finally:
        s.finish()


# vdepth: the verification depth both endpoints are configured with (None = the library default; 0 = the anchor must have issued the
# peer's certificate directly); the honest chains are shortened to fit
# extra_inter -1: the end-entity certificates are issued by the trust anchor itself (no intermediate CA in the list), whatever the depth setting
case_s = st.fixed_dictionaries({"cell": st.integers(0, len(CELLS) - 1), "inst": st.integers(0, 5), "extra_inter": st.sampled_from([-1, -1, 0, 0, 1]),
                                "vdepth": st.sampled_from([None, None, None, 0, 0, 1, 2, 5])})


@P.sub("matrix", case_s, quick=900, thorough=len(CELLS) * 12 * 5)
def matrix(case, ctx):
    """one cell of the credential-defect matrix, plus its control run"""
    proto, who, defect = CELLS[case["cell"]]
    inst, extra = case["inst"], case["extra_inter"]
    vd = case.get("vdepth")
    if (isinstance(CERT_DEFECTS.get(defect), dict) and "ca0" in CERT_DEFECTS[defect]) or defect == "leaf-signed-by-other-key":
        # the defect lives in (or is defined relative to) an intermediate CA certificate: the chain needs one
        extra = max(extra, 0)
        if vd == 0:
            vd = 1
    # control: same machinery, no defect (mutual auth when the client is the verified party)
    ctl = _run(ctx, proto, who, "control", inst, extra, vd)
    if ctl[0] == "setup-failed":
        raise AssertionError("control set-up failed: %r" % (ctl,))
    if ctl[0][0] == "timeout" or ctl[1][0] == "timeout":
        ctx.note("inconclusive-timeout"); return
    ctx.check(ctl[0][1] == 1 and ctl[1][1] == 1, "control handshake (%s, %s verified, no defect) failed: client=%s server=%s" % (proto, who, ctl[0][1], ctl[1][1]),
              "control/%s/%s" % (proto, who))
    res = _run(ctx, proto, who, defect, inst, extra, vd)
    ctx.case(nontrivial=True, classes=[proto, "verify-" + who, defect, "vdepth=%s" % vd, "intermediates=%d" % (max(0, 1 + extra) if vd is None else min(max(0, 1 + extra), vd))], ident=[proto, who, defect, inst, extra, vd], sample=dict(case, proto=proto, who=who, defect=defect))
    if res[0] == "setup-failed":
        # the defective credentials were refused when they were configured: nothing to bypass
        ctx.note("refused-at-setup/" + defect)
        return
    hc, hs, stalled = res
    if hc[0] == "timeout" or hs[0] == "timeout":
        ctx.note("inconclusive-timeout"); return
    verifier_ret = hc[1] if who == "server" else hs[1]
    ctx.check(verifier_ret != 1, "%s %s reports a completed handshake although the %s's credentials have the defect '%s' (client ret=%s, server ret=%s, chain with at most %d intermediate CA, verification depth %s)" %
              (proto, "client" if who == "server" else "server", who, defect, hc[1], hs[1], max(0, 1 + extra), vd),
              "bypass/%s/%s/%s" % (proto, who, defect))


# ---------------------------------------------------------------------------
# dishonest peers: pure-Python scripted TLS 1.2 / TLCP (vlib/peer12.py) and TLS 1.3 (vlib/peer13.py) endpoints that deviate from the protocol state machine while
# keeping master secret, keys and Finished consistent with what they sent
from props.c09x import scripted12, scripted13
scripted12.register(P)
scripted13.register(P)
