"""Check framework: properties, sub-checks, workers, evidence, findings, replay.

A property module (props/Cxx.py) creates `P = Prop("Cxx", ...)` and registers
sub-checks:

    @P.sub("name", strategy, quick=N, thorough=M)
    def name(case, ctx):       # case: JSON-serialisable value drawn by Hypothesis
        ctx.case(nontrivial=..., classes=[...])
        ...
        ctx.fail("what", key="stable/finding/key")   # raises unless key is a known finding

The driver splits each sub-check's budget over worker processes (16 by
default).  Each worker runs Hypothesis with a seed derived from VERIF_SEED, so
a run is a function of the tree and the seed.  Workers run with libasan and
the entropy/clock interposer preloaded; a worker that dies (sanitizer abort,
signal) leaves its current case on disk, which the driver replays and reports.
"""
import os, sys, json, time, hashlib, subprocess, traceback, random, signal, shutil

ROOT = os.path.dirname(os.path.dirname(os.path.abspath(__file__)))
sys.path.insert(0, ROOT)
from vlib import build as B

EVID = os.path.join(ROOT, "evidence")
REPLAYS = os.path.join(ROOT, "replays")
KNOWN = os.path.join(ROOT, "known_findings.json")
PY = sys.executable


class Fail(Exception):
    def __init__(self, msg, key=None):
        Exception.__init__(self, msg)
        self.msg, self.key = msg, key


def jhash(obj):
    return int.from_bytes(hashlib.blake2b(json.dumps(obj, sort_keys=True, separators=(",", ":")).encode(),
                                          digest_size=8).digest(), "big")


def load_known():
    out = []
    if os.path.exists(KNOWN):
        out = list(json.load(open(KNOWN)).get("findings", []))
    # development aid only (never set by MANIFEST commands): treat extra keys as known so exploration continues
    extra = os.environ.get("VERIF_EXTRA_KNOWN", "")
    prop = os.environ.get("VERIF_EXTRA_KNOWN_PROP", "")
    for k in [x for x in extra.split(",") if x]:
        out.append({"property": prop or "*", "key": k, "status": "known", "what": "development exclusion"})
    return out


class Ctx:
    """Per-worker accounting handed to each sub-check execution."""

    def __init__(self, prop, sub, known_keys=(), suppress=True):
        self.prop, self.sub = prop, sub
        self.evaluations = 0
        self.nt = set()
        self.classes = {}
        self.samples = []
        self.known_keys = set(known_keys)
        self.suppress = suppress
        self.known_hits = {}
        self.notes = {}
        self._cur = None
        self._rng_samples = random.Random(12345)

    # a sub-check may account many evaluated cases inside one generated instance
    def case(self, nontrivial=True, classes=(), ident=None, n=1, sample=None):
        self.evaluations += n
        for c in classes:
            self.classes[c] = self.classes.get(c, 0) + n
        if nontrivial:
            self.nt.add(jhash(ident) if ident is not None else jhash([self._cur_hash, len(self.nt)]))
        if sample is not None and len(self.samples) < 6:
            self.samples.append(sample)

    def note(self, k, n=1):
        self.notes[k] = self.notes.get(k, 0) + n

    def fail(self, msg, key=None):
        if key is not None and self.suppress and key in self.known_keys:
            self.known_hits[key] = self.known_hits.get(key, 0) + 1
            return
        raise Fail(msg, key)

    def check(self, cond, msg, key=None):
        if not cond:
            self.fail(msg, key)


class Sub:
    def __init__(self, name, fn, strategy, quick, thorough, variants, doc, max_workers=None, settings=None):
        self.name, self.fn, self.strategy = name, fn, strategy
        self.quick, self.thorough = quick, thorough
        self.variants = variants
        self.doc = doc
        self.max_workers = max_workers
        self.settings = settings or {}


class Task:
    """A non-Hypothesis job (libFuzzer campaign, C harness...) run by the driver itself.
    fn(tier, seed, ctxinfo) -> dict(evaluations, nt_hashes|nt_count, classes, samples, failures=[{msg,key,replay}], notes)"""

    def __init__(self, name, fn, doc):
        self.name, self.fn, self.doc = name, fn, doc


class Prop:
    def __init__(self, pid, level, rule, variants=("asan",), assumptions=(), needs=()):
        self.pid, self.level, self.rule = pid, level, rule
        self.variants = list(variants)
        self.assumptions = list(assumptions)
        self.subs = {}
        self.tasks = {}
        self.needs = list(needs)   # extra build steps: callables

    def sub(self, name, strategy, quick, thorough, variants=None, max_workers=None, chunk=150, **settings):
        """chunk: generated instances per worker process (lower it for expensive sub-checks so that they spread over the cores)"""
        def deco(fn):
            self.subs[name] = Sub(name, fn, strategy, quick, thorough, variants or self.variants[:1],
                                  (fn.__doc__ or "").strip(), max_workers, settings)
            self.subs[name].chunk = chunk
            return fn
        return deco

    def task(self, name):
        def deco(fn):
            self.tasks[name] = Task(name, fn, (fn.__doc__ or "").strip())
            return fn
        return deco


# ---------------------------------------------------------------------------
# worker side

def run_worker(prop, subname, n, seed, outpath, variant):
    """Runs Hypothesis for one sub-check chunk inside this (preloaded) process."""
    from hypothesis import given, settings, seed as hseed, HealthCheck, Phase, Verbosity
    import hypothesis
    sub = prop.subs[subname]
    known = [f["key"] for f in load_known() if f.get("property") in (prop.pid, "*") and f.get("status") == "known"]
    ctx = Ctx(prop.pid, subname, known)
    ctx.variant = variant
    curfile = outpath + ".cur"
    state = {"last_fail": None, "n": 0}
    strat = sub.strategy() if callable(sub.strategy) else sub.strategy

    def body(case):
        state["n"] += 1
        ctx._cur = case
        ctx._cur_hash = jhash(case)
        with open(curfile, "w") as f:
            json.dump({"property": prop.pid, "sub": subname, "variant": variant, "case": case}, f)
        try:
            sub.fn(case, ctx)
        except Fail as e:
            state["last_fail"] = {"case": case, "msg": e.msg, "key": e.key}
            raise
        except Exception as e:   # harness error: surfaces, but is labelled as such
            state["last_fail"] = {"case": case, "msg": "HARNESS-ERROR " + repr(e) + "\n" + traceback.format_exc(), "key": None,
                                  "harness_error": True}
            raise

    st = dict(max_examples=n, database=None, deadline=None, derandomize=False, report_multiple_bugs=False,
              suppress_health_check=list(HealthCheck), print_blob=False,
              phases=[Phase.explicit, Phase.generate, Phase.target, Phase.shrink])
    st.update(sub.settings)
    test = hseed(seed)(settings(**st)(given(strat)(body)))
    t0 = time.time()
    failure = None
    try:
        test()
    except Fail:
        failure = state["last_fail"]
    except Exception as e:
        failure = state["last_fail"] or {"case": None, "msg": "HARNESS-ERROR outside case: " + repr(e) + "\n" + traceback.format_exc(),
                                         "key": None, "harness_error": True}
    res = dict(sub=subname, variant=variant, evaluations=ctx.evaluations, generated=state["n"], nt=sorted(ctx.nt),
               classes=ctx.classes, samples=ctx.samples, known_hits=ctx.known_hits, notes=ctx.notes,
               failure=failure, wall=time.time() - t0, seed=seed)
    with open(outpath + ".tmp", "w") as f:
        json.dump(res, f)
    os.replace(outpath + ".tmp", outpath)
    try:
        os.unlink(curfile)
    except OSError:
        pass


def run_single(prop, subname, case, variant, suppress=False):
    """Run exactly one case (replay / probe).  Returns None if it passes, else dict(msg,key)."""
    sub = prop.subs[subname]
    known = [f["key"] for f in load_known() if f.get("property") in (prop.pid, "*") and f.get("status") == "known"]
    ctx = Ctx(prop.pid, subname, known, suppress=suppress)
    ctx.variant = variant
    ctx._cur = case
    ctx._cur_hash = jhash(case)
    try:
        sub.fn(case, ctx)
    except Fail as e:
        return {"msg": e.msg, "key": e.key}
    return None


# ---------------------------------------------------------------------------
# driver side

def worker_env(variant):
    env = dict(os.environ)
    shim = os.path.join(B.BUILD, "native", "vshim.so")
    pre = [shim]
    if variant != "plain":
        pre.insert(0, B.asan_rt())
    env["LD_PRELOAD"] = " ".join(pre)
    os.makedirs(os.path.join(B.BUILD, "asanlogs"), exist_ok=True)
    # reports go to files (asanlogs/asan.<pid>): some checks redirect fd 2 while the library runs
    env["ASAN_OPTIONS"] = ("detect_leaks=0:abort_on_error=0:exitcode=99:allocator_may_return_null=1:detect_stack_use_after_return=0:handle_segv=1"
                           ":log_path=" + os.path.join(B.BUILD, "asanlogs", "asan"))
    env["UBSAN_OPTIONS"] = "print_stacktrace=1:halt_on_error=1"
    env["PYTHONHASHSEED"] = "0"
    env["VERIF_VARIANT"] = variant
    env["PYTHONPATH"] = ROOT
    return env


def derive_seed(*parts):
    return int.from_bytes(hashlib.sha256(("/".join(str(p) for p in parts)).encode()).digest()[:8], "big") & 0x7FFFFFFFFFFFFFFF


def spawn_single(pid, subname, case, variant, suppress, timeout=600):
    """Replay one case in a fresh preloaded process. Returns (status, info): status in pass/fail/crash."""
    import tempfile
    d = os.path.join(B.BUILD, "cur")
    os.makedirs(d, exist_ok=True)
    fd, path = tempfile.mkstemp(prefix="single_", suffix=".json", dir=d)
    with os.fdopen(fd, "w") as f:
        json.dump({"property": pid, "sub": subname, "case": case, "variant": variant, "suppress": suppress}, f)
    t0 = time.time()
    try:
        r = subprocess.run([PY, "-m", "vlib.worker", "--single", path], env=worker_env(variant), cwd=ROOT,
                           capture_output=True, text=True, timeout=timeout)
    except subprocess.TimeoutExpired:
        return "timeout", {"msg": "timeout"}
    finally:
        pass
    out = None
    if os.path.exists(path + ".out"):
        out = json.load(open(path + ".out"))
        os.unlink(path + ".out")
    os.unlink(path)
    if out is None:
        err = (r.stderr or "") + "\n" + _asan_log_since(t0)
        i = err.find("ERROR: AddressSanitizer")
        if i < 0:
            i = err.find("runtime error:")
        tail = err[max(i - 100, 0):][:2500] if i >= 0 else err[-2500:]
        return "crash", {"msg": "process died rc=%s\n%s" % (r.returncode, tail), "key": _crash_key(err)}
    if out.get("result") is None:
        return "pass", None
    return "fail", out["result"]


def _asan_log_since(t0):
    """content of the sanitizer report files written since t0 (newest first), removed after reading"""
    d = os.path.join(B.BUILD, "asanlogs")
    out = []
    try:
        for fn in sorted(os.listdir(d), key=lambda f: -os.path.getmtime(os.path.join(d, f))):
            p = os.path.join(d, fn)
            if os.path.getmtime(p) >= t0 - 1:
                out.append(open(p, errors="replace").read())
    except OSError:
        pass
    return "\n".join(out)


def _crash_key(stderr):
    """Stable key for a sanitizer crash: error kind + first frame inside the library."""
    import re
    kind = None
    m = re.search(r"ERROR: AddressSanitizer: ([\w-]+)", stderr)
    if m:
        kind = m.group(1)
    else:
        m = re.search(r"runtime error: ([^\n]{0,60})", stderr)
        if m:
            kind = "ubsan:" + m.group(1).split(" ")[0]
    fn = None
    for m in re.finditer(r"#\d+ 0x[0-9a-f]+ in (\w+) (/repo|[^\s]*/src)/", stderr):
        fn = m.group(1)
        break
    if kind or fn:
        return "crash/%s/%s" % (kind or "signal", fn or "?")
    return None


def save_replay(pid, subname, variant, case, msg, key):
    d = os.path.join(REPLAYS, pid)
    os.makedirs(d, exist_ok=True)
    obj = {"property": pid, "sub": subname, "variant": variant, "case": case, "msg": msg[:4000], "key": key}
    h = hashlib.sha256(json.dumps([subname, case], sort_keys=True).encode()).hexdigest()[:12]
    p = os.path.join(d, "%s_%s.json" % (subname, h))
    json.dump(obj, open(p, "w"), indent=1)
    return p


def write_evidence(prop, tier, seed, cov, wall, violations, assumptions):
    os.makedirs(EVID, exist_ok=True)
    ev = {"property_id": prop.pid, "tier": tier, "seed": seed, "level": prop.level, "coverage": cov,
          "assumptions": assumptions, "wall_s": round(wall, 2), "violations": violations}
    try:
        import jsonschema
        schema = json.load(open("/root/.vp/EVIDENCE.schema.json"))
        jsonschema.validate(ev, schema)
    except (ImportError, FileNotFoundError):
        pass
    except Exception as e:
        print("[%s] warning: evidence does not validate: %s" % (prop.pid, str(e).splitlines()[0]), flush=True)
    p = os.path.join(EVID, prop.pid + ".json")
    json.dump(ev, open(p + ".tmp", "w"), indent=1, default=str)
    os.replace(p + ".tmp", p)


def drive(prop, tier, seed, only=None, jobs=None, scale=1.0):
    """Runs all sub-checks and tasks of a property. Returns exit code."""
    t_start = time.time()
    jobs = jobs or int(os.environ.get("VERIF_JOBS", os.cpu_count() or 4))
    needed = set(prop.variants)
    for s in prop.subs.values():
        needed.update(s.variants)
    _, bt = B.ensure(sorted(needed))
    for fn in prop.needs:
        fn()
    print("[%s] build ok (%.1fs) variants=%s" % (prop.pid, bt, ",".join(sorted(needed))), flush=True)

    known = [f for f in load_known() if f.get("property") == prop.pid]
    violations = []   # (msg, replaypath)
    known_lines = []

    # 1. probes for recorded findings (known: must still be recognised; fixed: must pass)
    import concurrent.futures as cf
    probes = [f for f in known if f.get("sub") in prop.subs and not (only and f["sub"] not in only)]

    def _probe(f):
        variant = f.get("variant", prop.subs[f["sub"]].variants[0])
        return f, variant, spawn_single(prop.pid, f["sub"], f["case"], variant, suppress=False)
    with cf.ThreadPoolExecutor(max_workers=jobs) as ex:
        probe_results = list(ex.map(_probe, probes))
    for f, variant, (status, info) in probe_results:
        if f.get("status") == "known":
            if status in ("fail", "crash") and (info.get("key") == f["key"]):
                known_lines.append("KNOWN-FINDING: property=%s %s [%s]" % (prop.pid, f["what"], f["key"]))
            elif status in ("fail", "crash"):
                rp = save_replay(prop.pid, f["sub"], variant, f["case"], info["msg"], info.get("key"))
                violations.append(("probe of known finding %s fails differently: %s" % (f["key"], info["msg"][:300]), rp))
            else:
                print("[%s] note: recorded finding %s no longer reproduces" % (prop.pid, f["key"]), flush=True)
        else:  # fixed: ordinary regression case
            if status in ("fail", "crash"):
                rp = save_replay(prop.pid, f["sub"], variant, f["case"], info["msg"], info.get("key"))
                violations.append(("regression of fixed finding %s: %s" % (f["key"], info["msg"][:300]), rp))

    # 1b. saved regression cases under regress/<pid>/*.json (plain cases that must pass)
    rdir = os.path.join(ROOT, "regress", prop.pid)
    n_regress = 0
    if os.path.isdir(rdir):
        for fn in sorted(os.listdir(rdir)):
            if not fn.endswith(".json"):
                continue
            r = json.load(open(os.path.join(rdir, fn)))
            if r["sub"] not in prop.subs or (only and r["sub"] not in only):
                continue
            variant = r.get("variant", prop.subs[r["sub"]].variants[0])
            status, info = spawn_single(prop.pid, r["sub"], r["case"], variant, suppress=True)
            n_regress += 1
            if status in ("fail", "crash"):
                rp = save_replay(prop.pid, r["sub"], variant, r["case"], info["msg"], info.get("key"))
                violations.append(("regression case %s: %s" % (fn, info["msg"][:300]), rp))

    # 2. generated campaigns
    outdir = os.path.join(B.BUILD, "cur", "%s_%d" % (prop.pid, os.getpid()))
    os.makedirs(outdir, exist_ok=True)
    chunks = []
    for s in prop.subs.values():
        if only and s.name not in only:
            continue
        total = s.quick if tier == "quick" else s.thorough
        total = max(1, int(total * scale))
        for variant in s.variants:
            w = min(jobs, s.max_workers or jobs, max(1, total // getattr(s, 'chunk', 150)))
            per = (total + w - 1) // w
            for i in range(w):
                chunks.append((s.name, variant, per, derive_seed(seed, prop.pid, s.name, variant, i), i))
    procs = []
    results = []
    pending = list(chunks)
    running = []
    logs = {}

    def launch(ch):
        name, variant, n, sd, i = ch
        out = os.path.join(outdir, "%s_%s_%d.json" % (name, variant, i))
        log = open(out + ".log", "w")
        p = subprocess.Popen([PY, "-m", "vlib.worker", "--prop", prop.pid, "--sub", name, "--n", str(n), "--seed", str(sd),
                              "--out", out, "--variant", variant], env=worker_env(variant), cwd=ROOT, stdout=log, stderr=subprocess.STDOUT)
        return (p, ch, out, log)

    started = {}
    timed_out = []
    chunk_deadline = int(os.environ.get("VERIF_CHUNK_DEADLINE", "900" if tier == "quick" else "14400"))
    while pending or running:
        while pending and len(running) < jobs:
            lp = launch(pending.pop(0))
            started[id(lp[0])] = time.time()
            running.append(lp)
        time.sleep(0.05)
        still = []
        for (p, ch, out, log) in running:
            if p.poll() is None:
                if time.time() - started[id(p)] > chunk_deadline:
                    # a stuck worker is load/harness noise, never a verdict: stop it and say so in the evidence
                    p.kill()
                    p.wait()
                    log.close()
                    timed_out.append(ch)
                    print("[%s] worker for %s exceeded %ds and was stopped (inconclusive)" % (prop.pid, ch[0], chunk_deadline), flush=True)
                    continue
                still.append((p, ch, out, log))
                continue
            log.close()
            results.append((ch, out, p.returncode))
        running = still

    confirmed = set()
    total_eval = 0
    nt_all = set()
    classes = {}
    samples = []
    known_hits = {}
    notes = {}
    per_sub = {}
    if timed_out:
        notes["workers-stopped-after-deadline"] = len(timed_out)
    for (ch, out, rc) in results:
        name, variant, n, sd, i = ch
        ps = per_sub.setdefault(name, {"evaluations": 0, "generated": 0, "nt": set(), "workers": 0, "wall": 0.0})
        if os.path.exists(out):
            r = json.load(open(out))
            ps["evaluations"] += r["evaluations"]; ps["generated"] += r["generated"]; ps["workers"] += 1
            ps["wall"] = max(ps["wall"], r["wall"])
            ps["nt"].update(r["nt"])
            total_eval += r["evaluations"]
            nt_all.update((name, h) for h in r["nt"])
            for k, v in r["classes"].items():
                classes[name + ":" + k] = classes.get(name + ":" + k, 0) + v
            for smp in r["samples"][:2]:
                if len(samples) < 40:
                    samples.append({"sub": name, "case": smp})
            for k, v in r["known_hits"].items():
                known_hits[k] = known_hits.get(k, 0) + v
            for k, v in r["notes"].items():
                notes[name + ":" + k] = notes.get(name + ":" + k, 0) + v
            if r["failure"]:
                f = r["failure"]
                dk = (name, variant, f.get("key") or f["msg"][:80])
                if dk not in confirmed:
                    confirmed.add(dk)
                    _confirm(prop, name, variant, f["case"], f["msg"], f.get("key"), violations, f.get("harness_error"))
        else:
            # worker died: replay the case it was working on
            cur = out + ".cur"
            tail = ""
            try:
                tail = open(out + ".log", errors="replace").read()[-3000:]
            except OSError:
                pass
            if "Sanitizer" not in tail and "runtime error" not in tail:
                tail += "\n" + _asan_log_since(t_start)[:3000]
            try:
                os.makedirs(os.path.join(B.BUILD, "crashlogs"), exist_ok=True)
                shutil.copy(out + ".log", os.path.join(B.BUILD, "crashlogs", "%s_%s_%s_%d.log" % (prop.pid, name, variant, i)))
            except OSError:
                pass
            dk = (name, variant, _crash_key(tail) or tail[-200:])
            if dk in confirmed:
                continue
            confirmed.add(dk)
            if os.path.exists(cur):
                c = json.load(open(cur))
                _confirm(prop, name, variant, c["case"], "worker died rc=%s\n%s" % (rc, tail), _crash_key(tail), violations, False, crashed=True)
            else:
                violations.append(("worker for %s died before first case rc=%s: %s" % (name, rc, tail[-500:]), "none"))

    # 3. tasks (run in the driver, may spawn their own processes)
    task_cov = {}
    for t in prop.tasks.values():
        if only and t.name not in only:
            continue
        r = t.fn(tier, seed, {"jobs": jobs, "known": known, "scale": scale})
        total_eval += r.get("evaluations", 0)
        for h in r.get("nt_hashes", []):
            nt_all.add((t.name, h))
        for k, v in r.get("classes", {}).items():
            classes[t.name + ":" + k] = classes.get(t.name + ":" + k, 0) + v
        for smp in r.get("samples", [])[:6]:
            samples.append({"sub": t.name, "case": smp})
        for k, v in r.get("notes", {}).items():
            notes[t.name + ":" + k] = v
        for k, v in r.get("known_hits", {}).items():
            known_hits[k] = known_hits.get(k, 0) + v
        for kl in r.get("known_lines", []):
            known_lines.append(kl)
        per_sub[t.name] = {"evaluations": r.get("evaluations", 0), "generated": r.get("evaluations", 0),
                           "nt": set(r.get("nt_hashes", [])), "workers": r.get("workers", 1), "wall": r.get("wall", 0.0)}
        for f in r.get("failures", []):
            violations.append((f["msg"], f["replay"]))

    for kl in sorted(set(known_lines)):
        print(kl, flush=True)
    wall = time.time() - t_start
    cov = {
        "evaluations": total_eval,
        "distinct_nontrivial": len(nt_all),
        "rule": prop.rule,
        "samples": samples[:24] or [{"note": "no samples"}],
        "classes": classes,
        "per_subcheck": {k: {"evaluations": v["evaluations"], "generated_instances": v["generated"],
                              "distinct_nontrivial": len(v["nt"]), "workers": v["workers"], "max_worker_wall_s": round(v["wall"], 1)}
                         for k, v in per_sub.items()},
        "excluded_known_findings": known_hits,
        "notes": notes,
        "regression_cases_replayed": n_regress,
        "known_finding_lines": sorted(set(known_lines)),
        "exhaustive": False,
    }
    write_evidence(prop, tier, seed, cov, wall, len(violations), prop.assumptions)
    print("[%s] tier=%s seed=%d evaluations=%d distinct_nontrivial=%d wall=%.1fs violations=%d" %
          (prop.pid, tier, seed, total_eval, len(nt_all), wall, len(violations)), flush=True)
    for k, v in sorted(per_sub.items()):
        print("    %-28s eval=%-9d nt=%-8d wall=%.1fs" % (k, v["evaluations"], len(v["nt"]), v["wall"]), flush=True)
    if known_hits:
        print("    excluded known-finding hits: %s" % json.dumps(known_hits), flush=True)
    shutil.rmtree(outdir, ignore_errors=True)
    if violations:
        seen = set()
        for msg, rp in violations:
            if rp in seen:
                continue
            seen.add(rp)
            print("VIOLATION property=%s replay=%s" % (prop.pid, rp), flush=True)
            print("    " + msg.replace("\n", "\n    ")[:1500], flush=True)
        return 1
    return 0


def _confirm(prop, name, variant, case, msg, key, violations, harness_error=False, crashed=False):
    """Replay 3x in fresh processes before reporting; unstable => not reported as violation."""
    if harness_error:
        rp = save_replay(prop.pid, name, variant, case, msg, key)
        violations.append((msg, rp))
        return
    bad = 0
    info = None
    for _ in range(3):
        status, inf = spawn_single(prop.pid, name, case, variant, suppress=True)
        if status in ("fail", "crash"):
            bad += 1
            info = inf
    if bad == 3:
        k = (info or {}).get("key") or key
        known = {f["key"] for f in load_known() if f.get("property") in (prop.pid, "*") and f.get("status") == "known"}
        if k in known:
            return
        rp = save_replay(prop.pid, name, variant, case, (info or {}).get("msg") or msg, k)
        violations.append(((info or {}).get("msg") or msg, rp))
    else:
        print("[%s] unstable failure in %s (%d/3 replays failed) - not reported: %s" % (prop.pid, name, bad, msg[:300]), flush=True)


def replay(prop, path):
    r = json.load(open(path))
    if r.get("kind") == "task":
        t = prop.tasks[r["sub"]]
        return t.fn("replay", 0, {"replay": r, "path": path})
    variant = r.get("variant") or prop.subs[r["sub"]].variants[0]
    needed = {variant}
    B.ensure(sorted(needed))
    for fn in prop.needs:
        fn()
    status, info = spawn_single(prop.pid, r["sub"], r["case"], variant, suppress=False)
    if status in ("fail", "crash"):
        print("VIOLATION property=%s replay=%s" % (prop.pid, path))
        print("    " + info["msg"][:3000].replace("\n", "\n    "))
        return 1
    print("[%s] replay passes: %s" % (prop.pid, path))
    return 0
