"""Scripted (pure Python) peer for the two CBC protocols of the library:

    tls12 : TLS 1.2, TLS_ECDHE_SM4_CBC_SM3 (0xE011)   - src/tls12.c
    tlcp  : TLCP 1.1, ECC_SM4_CBC_SM3 (0xE013)         - src/tlcp.c

It talks to ONE real library endpoint (vlib.net.Endpoint, running in its own thread) over a socketpair, as
server (ScriptedServer) or as client (ScriptedClient).  Nothing of the library is used on the scripted side:
SM3/HMAC-SM3 come from hashlib/hmac, SM4-CBC from OpenSSL through vlib/ref/blk.py (tlsrec.py), SM2 from
vlib/ref/sm2.py, DER from vlib/ref/sigder.py, certificates and private scalars from vlib/pki.py.

The peer is a *dishonest* peer when asked to be: every deviation from the protocol is a field of the plan
(a dict, see server_plan()/client_plan()).  Whatever it deviates in, it keeps its own state consistent:
master secret, key block and Finished are computed over the transcript it really sent / received, so that a
handshake can only be stopped by the other side's authentication logic, not by a sloppy script.

All randomness of the scripted side comes from `seed` (class Rng).  No wall clock decides anything except
"give up waiting": a wait ends when the library endpoint has returned and nothing is left to read, or after
`idle` seconds without a byte; both are reported as such and never as a verdict.

Wire facts taken from src/tls.c, tls12.c, tlcp.c, tls_ext.c (re-derived here, not shared):
  * one handshake message per record; record version 0x0303 (tls12; ClientHello record 0x0301) / 0x0101 (tlcp)
  * PRF = P_SM3 (HMAC-SM3);  master = PRF(pms, "master secret", cr || sr, 48);  key block = PRF(master,
    "key expansion", sr || cr, 96) = client MAC(32) | server MAC(32) | client key(16) | server key(16); explicit IV
  * pms: tls12 = x coordinate of the ECDH point (32 bytes); tlcp = 48 bytes encrypted with SM2 to the 2nd certificate
  * Finished = PRF(master, "client finished"/"server finished", SM3(all handshake messages so far), 12)
  * ServerKeyExchange: tls12 = 03 0029 41 04|X|Y, 0708, uint16 len, DER sig over cr|sr|params;
    tlcp = uint16 len, DER sig over cr|sr|uint24 len|encryption certificate;  signer ID = "1234567812345678"
  * CertificateVerify: uint16 len, DER sig; tls12 signs the concatenated handshake messages ClientHello..ClientKeyExchange,
    tlcp signs SM3 of them (both through SM2 with Z, default ID)
  * tls12 ServerHello must carry ec_point_formats, supported_groups, signature_algorithms; tlcp hellos carry no extensions
"""
import atexit, hashlib, hmac as _hmac, os, select, shutil, socket, time, functools
from . import build as B
from . import pki, net
from .ref import sm2 as M
from .ref import sigder as D
from .ref import tlsrec as R

REC_CCS, REC_ALERT, REC_HS, REC_APP = 20, 21, 22, 23
HS_CLIENT_HELLO, HS_SERVER_HELLO, HS_CERT, HS_SKE, HS_CERT_REQ, HS_DONE, HS_CERT_VERIFY, HS_CKE, HS_FINISHED = 1, 2, 11, 12, 13, 14, 15, 16, 20
HS_NAME = {1: "ClientHello", 2: "ServerHello", 11: "Certificate", 12: "ServerKeyExchange", 13: "CertificateRequest",
           14: "ServerHelloDone", 15: "CertificateVerify", 16: "ClientKeyExchange", 20: "Finished"}

PROTO = {
    "tls12": {"ver": b"\x03\x03", "hello_rec": b"\x03\x01", "suite": b"\xe0\x11", "zero_pms": bytes(32)},
    "tlcp": {"ver": b"\x01\x01", "hello_rec": b"\x01\x01", "suite": b"\xe0\x13", "zero_pms": bytes(48)},
}
SIG_SM2 = 0x0708
CURVE_SM2 = 41
# extension blocks as the library's own endpoints put them (client list order: point formats, groups, signature algorithms)
EXTS12 = bytes.fromhex("000b00020100" "000a00040002" "0029" "000d00040002" "0708")
RFC8998_ID = b"TLSv1.3+GM+Cipher+Suite"


# ---------------------------------------------------------------------------------------------------------------------
# deterministic randomness, primitives

class Rng:
    def __init__(self, seed):
        self.key = hashlib.sha256(b"peer12/" + repr(seed).encode()).digest()
        self.n = 0

    def bytes(self, n):
        out = b""
        while len(out) < n:
            out += hashlib.sha256(self.key + self.n.to_bytes(8, "big")).digest()
            self.n += 1
        return out[:n]

    def below(self, n):
        return int.from_bytes(self.bytes(40), "big") % n

    def scalar(self):
        return 1 + self.below(M.N - 1)


def sm3(b):
    return hashlib.new("sm3", b).digest()


def hmac_sm3(k, b):
    return _hmac.new(k, b, "sm3").digest()


def prf(secret, label, seed, n):
    """P_hash of RFC 5246 section 5 with HMAC-SM3"""
    seed = label + seed
    a, out = seed, b""
    while len(out) < n:
        a = hmac_sm3(secret, a)
        out += hmac_sm3(secret, a + seed)
    return out[:n]


@functools.lru_cache(maxsize=4096)
def pub_of(d):
    return M.pub_of(d)


def point_octets(pt):
    return b"\x04" + M.i2b(pt[0]) + M.i2b(pt[1])


# > 0: an honest signer that tries this many nonces and sends the shortest DER signature it found (r or s with leading zero bytes give
# 69 bytes and fewer - about one signature in 500 by chance); every such signature is valid
SHORT_SIG_TRIES = 0


def sm2_sign(d, msg, rng, ident=M.DEFAULT_ID):
    pub = pub_of(d)
    e = M.digest_for_sign(pub, ident, msg)
    best = None
    for _ in range(max(1, SHORT_SIG_TRIES)):
        while True:
            rs = M.sign_with_k(d, e, rng.scalar())
            if rs:
                break
        sig = D.enc_sig(*rs)
        if best is None or len(sig) < len(best):
            best = sig
        if len(best) < 70:
            break
    return best


def sm2_encrypt(pub, msg, rng):
    while True:
        c = M.encrypt_with_k(pub, msg, rng.scalar())
        if c:
            return D.enc_ct(c[0][0], c[0][1], c[1], c[2])


def sm2_decrypt(d, der):
    t = D.parse_ct(der)
    if t is None:
        return None
    return M.decrypt(d, (t[0], t[1]), t[2], t[3])


_SPKI_MARK = bytes.fromhex("06082A811CCF5501822D034200" "04")


def cert_pubkey(der):
    """SM2 public key of a certificate (first id-sm2 SubjectPublicKeyInfo in it) or None"""
    i = der.find(_SPKI_MARK)
    if i < 0 or i + len(_SPKI_MARK) + 64 > len(der):
        return None
    p = der[i + len(_SPKI_MARK):i + len(_SPKI_MARK) + 64]
    pt = (M.b2i(p[:32]), M.b2i(p[32:]))
    return pt if M.on_curve(pt) else None


def u16(b):
    return len(b).to_bytes(2, "big") + b


def u24(b):
    return len(b).to_bytes(3, "big") + b


def hs_msg(typ, body):
    return bytes([typ]) + len(body).to_bytes(3, "big") + body


def cert_body(ders):
    return u24(b"".join(u24(c) for c in ders))


def parse_cert_body(body):
    out = []
    if len(body) < 3:
        return out
    n = int.from_bytes(body[:3], "big")
    p, end = 3, min(len(body), 3 + n)
    while p + 3 <= end:
        ln = int.from_bytes(body[p:p + 3], "big")
        out.append(body[p + 3:p + 3 + ln])
        p += 3 + ln
    return out


def make_signature(mode, d, tbs, rng, ident=M.DEFAULT_ID, garbage_len=70):
    """the signature field of ServerKeyExchange / CertificateVerify under the chosen deviation"""
    if mode == "valid":
        return sm2_sign(d, tbs, rng, ident)
    if mode == "garbage":
        return rng.bytes(max(1, garbage_len))
    if mode == "empty":
        return b""
    if mode == "der-random":          # well-formed SEQUENCE { r, s } with r, s in [1, n-1] that nobody computed
        return D.enc_sig(rng.scalar(), rng.scalar())
    if mode == "der-ones":
        return D.enc_sig(1, 1)
    if mode == "der-zero":
        return D.enc_sig(0, 0)
    if mode == "der-n-1":
        return D.enc_sig(M.N - 1, M.N - 1)
    if mode == "der-r-eq-n":          # r = n (out of range), s = 1
        return D.enc_sig(M.N, 1)
    raise ValueError(mode)


SIG_MODES_FOREIGN = ("der-random", "der-ones", "der-zero", "der-n-1", "der-r-eq-n")


# ---------------------------------------------------------------------------------------------------------------------
# record layer

class Stop(Exception):
    """the script cannot go on: kind in alert / closed / timeout / lib-returned / unexpected / bad-mac / finished-mismatch / cannot"""

    def __init__(self, kind, detail=""):
        Exception.__init__(self, kind, detail)
        self.kind, self.detail = kind, detail


class Wire:
    """plaintext records until the ChangeCipherSpec of a direction, SM4-CBC + HMAC-SM3 afterwards"""

    def __init__(self, sock, version, rng, idle=5.0, done=None):
        self.sock, self.version, self.rng = sock, version, rng
        self.idle, self.done = idle, done
        self.buf = b""
        self.wkeys = self.rkeys = None
        self.wseq = self.rseq = 0
        self.sent = []      # (type, plaintext length)
        self.got = []

    def write_on(self, mac_key, enc_key):
        self.wkeys, self.wseq = (mac_key, enc_key), 0

    def read_on(self, mac_key, enc_key):
        self.rkeys, self.rseq = (mac_key, enc_key), 0

    def send(self, rtype, payload, version=None, plain=False):
        ver = version or self.version
        body = payload
        if self.wkeys and not plain:
            body = R.cbc_hmac_protect(self.wkeys[0], self.wkeys[1], self.wseq.to_bytes(8, "big"), rtype, ver, payload, self.rng.bytes(16))
            self.wseq += 1
        self.sent.append((rtype, len(payload)))
        try:
            self.sock.sendall(bytes([rtype]) + ver + len(body).to_bytes(2, "big") + body)
        except OSError:
            raise Stop("closed", "send failed")

    def _fill(self, n):
        last = time.monotonic()
        while len(self.buf) < n:
            try:
                r, _, _ = select.select([self.sock], [], [], 0.02)
            except (OSError, ValueError):
                raise Stop("closed", "socket gone")
            if r:
                try:
                    chunk = self.sock.recv(65536)
                except (BlockingIOError, InterruptedError):
                    continue
                except OSError:
                    raise Stop("closed", "recv failed")
                if not chunk:
                    raise Stop("closed", "EOF")
                self.buf += chunk
                last = time.monotonic()
                continue
            if self.done is not None and self.done():
                # the library endpoint has returned: everything it sent is already in the socket buffer
                try:
                    r, _, _ = select.select([self.sock], [], [], 0)
                except (OSError, ValueError):
                    r = []
                if not r:
                    raise Stop("lib-returned", "")
                continue
            if time.monotonic() - last > self.idle:
                raise Stop("timeout", "%.1fs without data" % self.idle)

    def recv(self):
        """-> (type, version, plaintext payload)"""
        self._fill(5)
        ln = int.from_bytes(self.buf[3:5], "big")
        self._fill(5 + ln)
        rtype, ver, body = self.buf[0], self.buf[1:3], self.buf[5:5 + ln]
        self.buf = self.buf[5 + ln:]
        if self.rkeys and not (rtype == REC_ALERT and ln == 2):      # the library sends handshake alerts in the clear
            pt = R.cbc_hmac_unprotect(self.rkeys[0], self.rkeys[1], self.rseq.to_bytes(8, "big"), rtype, ver, body)
            if pt is None:
                raise Stop("bad-mac", "record type %d length %d" % (rtype, ln))
            self.rseq += 1
            body = pt
        self.got.append((rtype, len(body)))
        return rtype, ver, body


# ---------------------------------------------------------------------------------------------------------------------
# the two scripts

class _Peer:
    def __init__(self, proto, sock, seed, plan, idle=5.0, done=None):
        self.proto, self.P, self.plan = proto, PROTO[proto], dict(plan)
        self.rng = Rng(seed)
        self.w = Wire(sock, self.P["ver"], self.rng, idle, done)
        self.t = []               # handshake messages in the order they went over the wire (what both sides hash)
        self.log = []             # ">Name" sent, "<Name" received
        self.cr = self.sr = None
        self.master = self.kb = None
        self.completed = False
        self.stop = None
        self.pms_known = False

    # -- transcript / secrets
    def th(self, msgs=None):
        return sm3(b"".join(self.t if msgs is None else msgs))

    def derive(self, pms):
        self.master = prf(pms, b"master secret", self.cr + self.sr, 48)
        self.kb = prf(self.master, b"key expansion", self.sr + self.cr, 96)

    def ensure_keys(self):
        """ChangeCipherSpec before any key exchange: all this side can use is a secret both ends could derive from nothing"""
        if self.master is None:
            self.derive(self.P["zero_pms"])

    def client_keys(self):
        return self.kb[0:32], self.kb[64:80]

    def server_keys(self):
        return self.kb[32:64], self.kb[80:96]

    def verify_data(self, label):
        return prf(self.master, label, self.th(), 12)

    # -- messages
    def send_hs(self, typ, body, version=None):
        msg = hs_msg(typ, body)
        self.w.send(REC_HS, msg, version)
        self.t.append(msg)
        self.log.append(">" + HS_NAME.get(typ, str(typ)))
        return msg

    def send_ccs(self, mine):
        """mine: self.client_keys / self.server_keys (called after the keys exist)"""
        self.ensure_keys()
        self.w.send(REC_CCS, b"\x01")
        self.w.write_on(*mine())
        self.log.append(">ChangeCipherSpec")

    def recv_any(self):
        rtype, ver, pl = self.w.recv()
        if rtype == REC_ALERT:
            self.log.append("<Alert")
            raise Stop("alert", "%d/%d" % (pl[0], pl[1]) if len(pl) == 2 else pl.hex())
        if rtype == REC_HS:
            if len(pl) < 4 or int.from_bytes(pl[1:4], "big") != len(pl) - 4:
                raise Stop("unexpected", "handshake record is not exactly one message")
            self.log.append("<" + HS_NAME.get(pl[0], str(pl[0])))
        elif rtype == REC_CCS:
            self.log.append("<ChangeCipherSpec")
        return rtype, pl

    def recv_hs(self, *types):
        rtype, pl = self.recv_any()
        if rtype != REC_HS or (types and pl[0] not in types):
            raise Stop("unexpected", "wanted %s, got record type %d%s" % ("/".join(HS_NAME[t] for t in types), rtype,
                                                                          " " + HS_NAME.get(pl[0], str(pl[0])) if rtype == REC_HS else ""))
        return pl[0], pl[4:], pl

    def handshake(self):
        try:
            self._run()
            self.completed = True
        except Stop as s:
            self.stop = s
        return self.report()

    def report(self):
        return {"completed": self.completed, "stop": (self.stop.kind, self.stop.detail) if self.stop else None,
                "log": list(self.log), "last": self.log[-1] if self.log else "-"}

    # -- application data after a completed handshake
    def send_app(self, data):
        self.w.send(REC_APP, data)

    def recv_app(self):
        rtype, ver, pl = self.w.recv()
        if rtype == REC_ALERT:
            raise Stop("alert", pl.hex())
        if rtype != REC_APP:
            raise Stop("unexpected", "record type %d" % rtype)
        return pl

    def hello_random(self):
        return pki.T0.to_bytes(4, "big") + self.rng.bytes(28)

    def signature(self, spec, tbs):
        """spec: dict(mode, key=d, ident, garbage_len)"""
        return make_signature(spec.get("mode", "valid"), spec.get("key"), tbs, self.rng, spec.get("ident", M.DEFAULT_ID), spec.get("garbage_len", 70))


class ScriptedServer(_Peer):
    """plan:
      flight       steps after ServerHello, from: cert, cert2, ske, done, ccs, fin            (honest: cert ske done)
      certs/certs2 lists of DER certificates for the steps cert / cert2
      ske          dict(mode, key, ident, garbage_len) of the signature, plus
                   randoms: right | swapped | other      what the signature covers instead of client_random, server_random
                   params:  right | other                 other = another ECDHE point (tls12) / the certificate `other_enc_cert` (tlcp)
                   sigalg:  SignatureScheme code written into the message (tls12)
      enc_cert     tlcp: the certificate the signature covers when no second certificate is in `certs`
      enc_d        tlcp: private key for decrypting the pre-master secret (None: the script does not have it)
    """

    def _run(self):
        plan = self.plan
        typ, body, raw = self.recv_hs(HS_CLIENT_HELLO)
        if len(body) < 34:
            raise Stop("unexpected", "short ClientHello")
        self.cr = body[2:34]
        self.t.append(raw)
        self.sr = self.hello_random()
        sh = self.P["ver"] + self.sr + b"\x00" + self.P["suite"] + b"\x00"
        if self.proto == "tls12":
            sh += u16(EXTS12)
        self.send_hs(HS_SERVER_HELLO, sh)
        self.ecdhe_d = None
        fin_sent = False
        for step in plan.get("flight", ("cert", "ske", "done")):
            if step == "cert":
                self.send_hs(HS_CERT, cert_body(plan["certs"]))
            elif step == "cert2":
                self.send_hs(HS_CERT, cert_body(plan["certs2"]))
            elif step == "ske":
                self.send_hs(HS_SKE, self._ske())
            elif step == "done":
                self.send_hs(HS_DONE, b"")
            elif step == "ccs":
                self.send_ccs(self.server_keys)
            elif step == "fin":
                self.ensure_keys()
                self.send_hs(HS_FINISHED, self.verify_data(b"server finished"))
                fin_sent = True
            else:
                raise ValueError(step)
        # the client's flight: whatever it sends, in the order it sends it
        while True:
            rtype, pl = self.recv_any()
            if rtype == REC_CCS:
                if self.master is None:
                    raise Stop("unexpected", "ChangeCipherSpec before ClientKeyExchange")
                self.w.read_on(*self.client_keys())
            elif rtype == REC_HS and pl[0] == HS_CKE:
                self._on_cke(pl[4:])
                self.t.append(pl)
            elif rtype == REC_HS and pl[0] == HS_FINISHED:
                if self.master is None or pl[4:] != self.verify_data(b"client finished"):
                    raise Stop("finished-mismatch", "client Finished does not match the script's transcript/keys")
                self.t.append(pl)
                break
            elif rtype == REC_HS and pl[0] in (HS_CERT, HS_CERT_VERIFY):
                self.t.append(pl)
            else:
                raise Stop("unexpected", "record type %d in the client's flight" % rtype)
        if not self.w.wkeys:
            self.send_ccs(self.server_keys)
        if not fin_sent:
            self.send_hs(HS_FINISHED, self.verify_data(b"server finished"))

    def _ecdhe(self):
        if self.ecdhe_d is None:
            self.ecdhe_d = self.rng.scalar()
        return self.ecdhe_d

    def _ske(self):
        plan = self.plan
        spec = plan.get("ske", {})
        cr, sr = self.cr, self.sr
        if spec.get("randoms") == "swapped":
            cr, sr = sr, cr
        elif spec.get("randoms") == "other":
            cr, sr = self.hello_random(), self.hello_random()
        if self.proto == "tls12":
            params = b"\x03" + CURVE_SM2.to_bytes(2, "big") + b"\x41" + point_octets(pub_of(self._ecdhe()))
            signed = params
            if spec.get("params") == "other":
                signed = params[:4] + point_octets(pub_of(self.rng.scalar()))
            sig = self.signature(spec, cr + sr + signed)
            return params + spec.get("sigalg", SIG_SM2).to_bytes(2, "big") + u16(sig)
        certs = plan.get("certs") or []
        enc = certs[1] if (len(certs) > 1 and "cert" in plan.get("flight", ("cert",))) else plan.get("enc_cert")
        if spec.get("params") == "other":
            enc = plan["other_enc_cert"]
        if enc is None:
            enc = b""
        return u16(self.signature(spec, cr + sr + u24(enc)))

    def _on_cke(self, body):
        if self.proto == "tls12":
            if len(body) != 66 or body[0] != 65 or body[1] != 4:
                raise Stop("unexpected", "ClientKeyExchange shape")
            q = (M.b2i(body[2:34]), M.b2i(body[34:66]))
            if not M.on_curve(q):
                raise Stop("unexpected", "client ECDHE point not on the curve")
            s = M.mul(self._ecdhe(), q)
            self.derive(M.i2b(s[0]))
        else:
            d = self.plan.get("enc_d")
            if d is None:
                raise Stop("cannot", "no private key for the encryption certificate that was presented")
            n = int.from_bytes(body[:2], "big") if len(body) >= 2 else -1
            pms = sm2_decrypt(d, body[2:]) if n == len(body) - 2 else None
            if pms is None or len(pms) != 48:
                raise Stop("cannot", "pre-master secret does not decrypt under the script's key")
            self.derive(pms)
        self.pms_known = True


class ScriptedClient(_Peer):
    """plan:
      flight       steps after ServerHelloDone, from: cert, cert2, cke, cv, ccs, fin, cv-plain
                   (honest: cert cke cv ccs fin when a CertificateRequest came, else cke ccs fin)
      certs/certs2 lists of DER certificates
      cv           dict(mode, key, ident, garbage_len) plus
                   transcript: current | no-last | until-done | hello-only | other | plus-extra | style-swap
    """

    def _run(self):
        plan = self.plan
        self.cr = self.hello_random()
        ch = self.P["ver"] + self.cr + b"\x00" + u16(self.P["suite"]) + b"\x01\x00"
        if self.proto == "tls12":
            ch += u16(EXTS12)
        self.send_hs(HS_CLIENT_HELLO, ch, version=self.P["hello_rec"])
        typ, body, raw = self.recv_hs(HS_SERVER_HELLO)
        if len(body) < 34:
            raise Stop("unexpected", "short ServerHello")
        self.sr = body[2:34]
        self.t.append(raw)
        self.server_certs, self.ske, self.cert_requested = [], None, False
        while True:
            typ, body, raw = self.recv_hs(HS_CERT, HS_SKE, HS_CERT_REQ, HS_DONE)
            self.t.append(raw)
            if typ == HS_CERT:
                self.server_certs = parse_cert_body(body)
            elif typ == HS_SKE:
                self.ske = body
            elif typ == HS_CERT_REQ:
                self.cert_requested = True
            else:
                break
        self.n_done = len(self.t)
        flight = plan.get("flight")
        if flight is None:
            flight = ("cert", "cke", "cv", "ccs", "fin") if self.cert_requested else ("cke", "ccs", "fin")
        for step in flight:
            if step == "cert":
                self.send_hs(HS_CERT, cert_body(plan["certs"]))
            elif step == "cert2":
                self.send_hs(HS_CERT, cert_body(plan["certs2"]))
            elif step == "cke":
                self.send_hs(HS_CKE, self._cke())
            elif step == "cv":
                self.send_hs(HS_CERT_VERIFY, self._cv())
            elif step == "cv-plain":        # after ChangeCipherSpec, but not protected
                msg = hs_msg(HS_CERT_VERIFY, self._cv())
                self.w.send(REC_HS, msg, plain=True)
                self.t.append(msg)
                self.log.append(">CertificateVerify(plain)")
            elif step == "ccs":
                self.send_ccs(self.client_keys)
            elif step == "fin":
                self.ensure_keys()
                self.send_hs(HS_FINISHED, self.verify_data(b"client finished"))
            else:
                raise ValueError(step)
        rtype, pl = self.recv_any()
        if rtype != REC_CCS:
            raise Stop("unexpected", "wanted ChangeCipherSpec, got record type %d" % rtype)
        self.ensure_keys()
        self.w.read_on(*self.server_keys())
        typ, body, raw = self.recv_hs(HS_FINISHED)
        if body != self.verify_data(b"server finished"):
            raise Stop("finished-mismatch", "server Finished does not match the script's transcript/keys")
        self.t.append(raw)

    def _cke(self):
        if self.proto == "tls12":
            if self.ske is None or len(self.ske) < 69 or self.ske[3] != 65 or self.ske[4] != 4:
                raise Stop("cannot", "no usable ServerKeyExchange")
            q = (M.b2i(self.ske[5:37]), M.b2i(self.ske[37:69]))
            if not M.on_curve(q):
                raise Stop("cannot", "server ECDHE point not on the curve")
            d = self.rng.scalar()
            self.derive(M.i2b(M.mul(d, q)[0]))
            self.pms_known = True
            return b"\x41" + point_octets(pub_of(d))
        pub = cert_pubkey(self.server_certs[1]) if len(self.server_certs) > 1 else None
        if pub is None:
            raise Stop("cannot", "no encryption certificate from the server")
        pms = self.P["ver"] + self.rng.bytes(46)
        self.derive(pms)
        self.pms_known = True
        return u16(sm2_encrypt(pub, pms, self.rng))

    def _cv(self):
        spec = self.plan.get("cv", {})
        which = spec.get("transcript", "current")
        msgs = list(self.t)
        if which == "no-last":
            msgs = msgs[:-1]
        elif which == "until-done":
            msgs = msgs[:self.n_done]
        elif which == "hello-only":
            msgs = msgs[:2]
        elif which == "other":
            msgs = [self.rng.bytes(300)]
        elif which == "plus-extra":
            msgs = msgs + [b"\x00"]
        hashed = (self.proto == "tlcp") != (which == "style-swap")
        data = b"".join(msgs)
        return u16(self.signature(spec, sm3(data) if hashed else data))


# ---------------------------------------------------------------------------------------------------------------------
# test PKI for the two set-ups

_TMP = os.path.join(B.BUILD, "tmp", "p12_%d" % os.getpid())
_CREDS = {}


def _cleanup():
    shutil.rmtree(_TMP, ignore_errors=True)


atexit.register(_cleanup)


def _extra(ch, who, issuer, ku, tw=None, key_label=None):
    """one more end-entity certificate in the chain object `ch` (issued by `issuer` unless tw['signed_by'] says otherwise)"""
    ch.keys[who] = pki.key_of(key_label or (ch.tag + "/" + who))
    ch.certs[who] = ch._mk(who, issuer, ca=None, path_len=None, ku=ku, tw=tw or {})


def _cas(ch):
    """intermediates from the leaf's issuer upwards (what a chain file / Certificate message carries after the end-entity part)"""
    return [ch.certs["ca%d" % i] for i in reversed(range(ch.n_inter))]


class Creds:
    """everything one (protocol, library role, instance, chain depth) set-up needs.

    library role 'client':  T = the server chain the library client trusts (root file = what the client is configured with),
                            A = the attacker's own, untrusted server PKI of the same shape,
                            T.sib / T.sibenc = certificates the trusted CA issued to somebody else (keys known to the attacker),
                            T.encx = certificate naming the trusted CA as issuer, but signed with the attacker's key.
    library role 'server':  S = the library server's own credentials (files), T = the client chain the server trusts,
                            A = untrusted client PKI, T.sib as above."""

    def __init__(self, variant, proto, role, inst, n_inter):
        self.proto, self.role = proto, role
        tag = "p12-%s-%s-%d-%d" % (proto, role[0], inst, n_inter)
        tlcp_server = proto == "tlcp" and role == "client"
        if role == "client":
            self.T = pki.Chain(tag + "T", n_inter=n_inter, tlcp=tlcp_server, role="server")
            self.A = pki.Chain(tag + "A", n_inter=n_inter, tlcp=tlcp_server, role="server")
        else:
            self.S = pki.Chain(tag + "S", n_inter=n_inter, tlcp=(proto == "tlcp"), role="server")
            self.T = pki.Chain(tag + "T", n_inter=n_inter, tlcp=False, role="client")
            self.A = pki.Chain(tag + "A", n_inter=n_inter, tlcp=False, role="client")
        T = self.T
        iss = T.issuer_of_leaf
        _extra(T, "sib", iss, ["digitalSignature"])
        if tlcp_server:
            _extra(T, "sibenc", iss, ["keyEncipherment"])
            T.keys["attk"] = pki.key_of(tag + "/attacker-signing-key")
            _extra(T, "encx", iss, ["keyEncipherment"], tw={"signed_by": "attk"})
        d = os.path.join(_TMP, hashlib.sha1(tag.encode()).hexdigest()[:16])
        if role == "client":
            self.files = T.write(os.path.join(d, "T"), variant=variant)
        else:
            self.files = self.S.write(os.path.join(d, "S"), variant=variant)
            self.tfiles = T.write(os.path.join(d, "T"), variant=variant)

    def list_of(self, ch, leaf="leaf", enc=None):
        """DER list: leaf [, enc], CA certificates"""
        out = [ch.certs[leaf]]
        if enc is not None:
            out.append(enc)
        return out + _cas(ch)


def creds(variant, proto, role, inst, n_inter):
    k = (variant, proto, role, inst, n_inter)
    if k not in _CREDS:
        _CREDS[k] = Creds(variant, proto, role, inst, n_inter)
    return _CREDS[k]


# ---------------------------------------------------------------------------------------------------------------------
# behaviours -> plans

KEYSEL = ("attacker", "sibling", "fresh", "issuer", "enc")
ENCSEL = ("sibling", "sibling", "untrusted-ca", "attacker-signed")

SERVER_BEHAVIOURS = {          # the scripted side is the SERVER, the library the client; value: protocols it applies to
    "honest": ("tls12", "tlcp"),
    "ske-wrong-key": ("tls12", "tlcp"),
    "ske-sigalg-other": ("tls12",),
    "ske-sig-garbage": ("tls12", "tlcp"),
    "ske-sig-empty": ("tls12", "tlcp"),
    "ske-sig-foreign-der": ("tls12", "tlcp"),
    "ske-sig-swapped-randoms": ("tls12", "tlcp"),
    "ske-sig-other-randoms": ("tls12", "tlcp"),
    "ske-sig-other-params": ("tls12", "tlcp"),
    "ske-sig-other-id": ("tls12", "tlcp"),
    "ske-omitted": ("tls12", "tlcp"),
    "cert-omitted": ("tls12", "tlcp"),
    "cert-empty": ("tls12", "tlcp"),
    "replayed-chain-own-keys": ("tls12",),        # tlcp: the genuine encryption certificate's key is needed -> impossible, skipped
    "tlcp-enc-untrusted-ca": ("tlcp",),
    "tlcp-enc-attacker-signed": ("tlcp",),
    "tlcp-enc-missing": ("tlcp",),
    "ske-before-cert": ("tls12", "tlcp"),
    "cert-twice-trusted-first": ("tls12", "tlcp"),
    "cert-twice-attacker-first": ("tls12", "tlcp"),
    "ske-twice": ("tls12", "tlcp"),
    "untrusted-chain-valid-sigs": ("tls12", "tlcp"),
    "early-ccs-finished": ("tls12", "tlcp"),
}

CLIENT_BEHAVIOURS = {          # the scripted side is the CLIENT, the library a server that demands client authentication
    "honest": ("tls12", "tlcp"),
    "cv-omitted": ("tls12", "tlcp"),
    "cv-wrong-key": ("tls12", "tlcp"),
    "cv-garbage": ("tls12", "tlcp"),
    "cv-empty": ("tls12", "tlcp"),
    "cv-foreign-der": ("tls12", "tlcp"),
    "cv-wrong-transcript": ("tls12", "tlcp"),
    "cv-id-mismatch": ("tls12", "tlcp"),
    "cert-empty": ("tls12", "tlcp"),
    "cert-empty-with-cv": ("tls12", "tlcp"),
    "cert-absent": ("tls12", "tlcp"),
    "cert-absent-with-cv": ("tls12", "tlcp"),
    "untrusted-chain-valid-cv": ("tls12", "tlcp"),
    "cv-after-ccs": ("tls12", "tlcp"),
    "cke-omitted": ("tls12", "tlcp"),
    "cert-twice-trusted-first": ("tls12", "tlcp"),
    "cert-twice-attacker-first": ("tls12", "tlcp"),
    "cv-before-cke": ("tls12", "tlcp"),
    "cv-twice": ("tls12", "tlcp"),
    "early-ccs-finished": ("tls12", "tlcp"),
}

WRONG_TRANSCRIPTS = ("no-last", "until-done", "hello-only", "other", "plus-extra", "style-swap")
OTHER_IDS = (RFC8998_ID, b"", b"12345678", b"1234567812345679", b"1234567812345678" * 2)
OTHER_SIGALGS = (0x0403, 0x0707, 0x0807, 0x0000, 0x0401, 0x0804, 0x0809)


def _wrong_key(c, keysel, rng, enc_d=None):
    """(label, private scalar) of a key that is NOT the key of the trusted leaf certificate"""
    if keysel == "sibling":
        return c.T.keys["sib"][0]
    if keysel == "fresh":
        return rng.scalar()
    if keysel == "issuer":
        return c.T.keys[c.T.issuer_of_leaf][0]
    if keysel == "enc" and enc_d is not None:
        return enc_d
    return c.A.keys["leaf"][0]


def _enc_choice(c, encsel):
    """tlcp, library is the client: an encryption certificate whose private key the attacker owns -> (DER, d)"""
    if encsel == "untrusted-ca":
        return c.A.certs["enc"], c.A.keys["enc"][0]
    if encsel == "attacker-signed":
        return c.T.certs["encx"], c.T.keys["encx"][0]
    return c.T.certs["sibenc"], c.T.keys["sibenc"][0]


def server_plan(c, behaviour, keysel="attacker", encsel="sibling", p=0, seed=0):
    """plan for ScriptedServer against the library client that trusts c.T's root.  p: small integer parameter."""
    proto, T, A = c.proto, c.T, c.A
    tlcp = proto == "tlcp"
    rng = Rng(("plan", seed))
    if behaviour == "honest":
        return {"certs": c.list_of(T, enc=T.certs["enc"] if tlcp else None), "ske": {"mode": "valid", "key": T.keys["leaf"][0]},
                "enc_d": T.keys["enc"][0] if tlcp else None}
    # the attacker never has T's leaf / enc private keys; in TLCP it needs an encryption certificate of its own
    enc_der, enc_d = _enc_choice(c, encsel) if tlcp else (None, None)
    wrong = _wrong_key(c, keysel, rng, enc_d)
    genuine = T.keys["leaf"][0]          # only for 'a genuine signature over something else' (replay / signing-oracle model)
    plan = {"certs": c.list_of(T, enc=enc_der), "enc_d": enc_d, "enc_cert": enc_der, "ske": {"mode": "valid", "key": wrong}}
    b = behaviour
    if b in ("ske-wrong-key", "replayed-chain-own-keys"):
        if b == "replayed-chain-own-keys":
            plan["ske"]["key"] = A.keys["leaf"][0]
    elif b == "ske-sigalg-other":
        plan["ske"]["sigalg"] = OTHER_SIGALGS[p % len(OTHER_SIGALGS)]
    elif b == "ske-sig-garbage":
        plan["ske"] = {"mode": "garbage", "garbage_len": 1 + p % 72}
    elif b == "ske-sig-empty":
        plan["ske"] = {"mode": "empty"}
    elif b == "ske-sig-foreign-der":
        plan["ske"] = {"mode": SIG_MODES_FOREIGN[p % len(SIG_MODES_FOREIGN)]}
    elif b == "ske-sig-swapped-randoms":
        plan["ske"] = {"mode": "valid", "key": genuine, "randoms": "swapped"}
    elif b == "ske-sig-other-randoms":
        plan["ske"] = {"mode": "valid", "key": genuine, "randoms": "other"}
    elif b == "ske-sig-other-params":
        plan["ske"] = {"mode": "valid", "key": genuine, "params": "other"}
        if tlcp:
            plan["other_enc_cert"] = T.certs["enc"]       # what the genuine server would have signed
    elif b == "ske-sig-other-id":
        plan["ske"] = {"mode": "valid", "key": genuine, "ident": OTHER_IDS[p % len(OTHER_IDS)]}
    elif b == "ske-omitted":
        plan["flight"] = ("cert", "done")
    elif b == "cert-omitted":
        plan["flight"] = ("ske", "done")
    elif b == "cert-empty":
        plan["certs"] = []
    elif b == "tlcp-enc-untrusted-ca":
        enc_der, enc_d = _enc_choice(c, "untrusted-ca")
        plan.update(certs=c.list_of(T, enc=enc_der), enc_d=enc_d, enc_cert=enc_der)
        plan["ske"]["key"] = genuine if p % 2 == 0 else _wrong_key(c, keysel, rng, enc_d)
    elif b == "tlcp-enc-attacker-signed":
        enc_der, enc_d = _enc_choice(c, "attacker-signed")
        plan.update(certs=c.list_of(T, enc=enc_der), enc_d=enc_d, enc_cert=enc_der)
        plan["ske"]["key"] = genuine if p % 2 == 0 else _wrong_key(c, keysel, rng, enc_d)
    elif b == "tlcp-enc-missing":
        # only the signing certificate (+ CAs); the signature (genuine or not) covers an encryption certificate that is never shown
        plan["certs"] = c.list_of(T)
        plan["ske"]["key"] = genuine if p % 2 == 0 else wrong
    elif b == "ske-before-cert":
        plan["flight"] = ("ske", "cert", "done")
    elif b in ("cert-twice-trusted-first", "cert-twice-attacker-first"):
        own = c.list_of(A, enc=A.certs["enc"] if tlcp else None)
        trusted = c.list_of(T, enc=T.certs["enc"] if tlcp else None)        # here the genuine list can be replayed as it is
        first, second = (trusted, own) if b.endswith("trusted-first") else (own, trusted)
        plan.update(certs=first, certs2=second, flight=("cert", "cert2", "ske", "done"), ske={"mode": "valid", "key": A.keys["leaf"][0]})
        if tlcp:
            plan.update(enc_d=A.keys["enc"][0], enc_cert=A.certs["enc"], other_enc_cert=A.certs["enc"])
            plan["ske"]["params"] = "other"        # always sign the attacker's own encryption certificate
    elif b == "ske-twice":
        plan["flight"] = ("cert", "ske", "ske", "done")
    elif b == "untrusted-chain-valid-sigs":
        plan = {"certs": c.list_of(A, enc=A.certs["enc"] if tlcp else None), "ske": {"mode": "valid", "key": A.keys["leaf"][0]},
                "enc_d": A.keys["enc"][0] if tlcp else None}
    elif b == "early-ccs-finished":
        plan["flight"] = (("cert", "ccs", "fin"), ("ccs", "fin"), ("cert", "ske", "ccs", "fin"), ("cert", "ske", "done", "ccs", "fin"))[p % 4]
    else:
        raise ValueError(behaviour)
    return plan


def client_plan(c, behaviour, keysel="attacker", p=0, seed=0):
    """plan for ScriptedClient against the library server that trusts c.T's root for client authentication"""
    T, A = c.T, c.A
    rng = Rng(("plan", seed))
    trusted = c.list_of(T)
    if behaviour == "honest":
        return {"certs": trusted, "cv": {"mode": "valid", "key": T.keys["leaf"][0]}}
    if behaviour == "honest-noauth":
        return {}
    wrong = _wrong_key(c, keysel, rng)
    genuine = T.keys["leaf"][0]
    plan = {"certs": trusted, "cv": {"mode": "valid", "key": wrong}}
    b = behaviour
    if b == "cv-omitted":
        plan["flight"] = ("cert", "cke", "ccs", "fin")
    elif b == "cv-wrong-key":
        pass
    elif b == "cv-garbage":
        plan["cv"] = {"mode": "garbage", "garbage_len": 1 + p % 72}
    elif b == "cv-empty":
        plan["cv"] = {"mode": "empty"}
    elif b == "cv-foreign-der":
        plan["cv"] = {"mode": SIG_MODES_FOREIGN[p % len(SIG_MODES_FOREIGN)]}
    elif b == "cv-wrong-transcript":
        plan["cv"] = {"mode": "valid", "key": genuine, "transcript": WRONG_TRANSCRIPTS[p % len(WRONG_TRANSCRIPTS)]}
    elif b == "cv-id-mismatch":
        plan["cv"] = {"mode": "valid", "key": genuine, "ident": OTHER_IDS[p % len(OTHER_IDS)]}
    elif b == "cert-empty":
        plan.update(certs=[], flight=("cert", "cke", "ccs", "fin"))
    elif b == "cert-empty-with-cv":
        plan.update(certs=[], flight=("cert", "cke", "cv", "ccs", "fin"))
    elif b == "cert-absent":
        plan["flight"] = ("cke", "ccs", "fin")
    elif b == "cert-absent-with-cv":
        plan["flight"] = ("cke", "cv", "ccs", "fin")
    elif b == "untrusted-chain-valid-cv":
        plan = {"certs": c.list_of(A), "cv": {"mode": "valid", "key": A.keys["leaf"][0]}, "flight": ("cert", "cke", "cv", "ccs", "fin")}
    elif b == "cv-after-ccs":
        plan["flight"] = ("cert", "cke", "ccs", "cv" if p % 2 == 0 else "cv-plain", "fin")
    elif b == "cke-omitted":
        plan["flight"] = ("cert", "cv", "ccs", "fin")
    elif b in ("cert-twice-trusted-first", "cert-twice-attacker-first"):
        first, second = (trusted, c.list_of(A)) if b.endswith("trusted-first") else (c.list_of(A), trusted)
        plan.update(certs=first, certs2=second, flight=("cert", "cert2", "cke", "cv", "ccs", "fin"), cv={"mode": "valid", "key": A.keys["leaf"][0]})
    elif b == "cv-before-cke":
        plan["flight"] = ("cert", "cv", "cke", "ccs", "fin")
    elif b == "cv-twice":
        plan["flight"] = ("cert", "cke", "cv", "cv", "ccs", "fin")
    elif b == "early-ccs-finished":
        plan["flight"] = (("ccs", "fin"), ("cert", "ccs", "fin"), ("cert", "cv", "ccs", "fin"))[p % 3]
    else:
        raise ValueError(behaviour)
    plan.setdefault("flight", ("cert", "cke", "cv", "ccs", "fin"))
    return plan


# ---------------------------------------------------------------------------------------------------------------------
# one library endpoint against one script

class Duel:
    """lib_role 'client': library client (trust anchors = c.T root) against ScriptedServer;
       lib_role 'server': library server (own chain c.S) that demands client certificates issued under c.T's root;
       lib_role 'server-noauth': the same server without client authentication (interoperability control only)."""

    def __init__(self, variant, c, lib_role, seed):
        self.c, self.proto, self.lib_role = c, c.proto, lib_role
        self.a, self.b = socket.socketpair()
        es = int.from_bytes(hashlib.sha256(b"p12lib%d" % seed).digest()[:8], "big")
        if lib_role == "client":
            self.ep = net.Endpoint(variant, c.proto, True, self.a, cafile=c.files["root"], entropy_seed=es)
        else:
            self.ep = net.Endpoint(variant, c.proto, False, self.a, cafile=c.tfiles["root"] if lib_role == "server" else None,
                                   chainfile=c.files["chain"], keyfile=c.files["leafkey"], enckeyfile=c.files.get("enckey"), entropy_seed=es)
        self.stalled = False
        self.peer = None

    def start(self):
        self.ep.start()
        return self.ep.result(60.0)

    def lib_done(self):
        return not self.ep.results.empty()

    def handshake(self, plan, seed, idle=5.0, wait=20.0):
        """-> (library's tls_do_handshake result or None when it never returned, script report)"""
        cls = ScriptedServer if self.lib_role == "client" else ScriptedClient
        self.peer = cls(self.proto, self.b, seed, plan, idle=idle, done=self.lib_done)
        self.ep.call("handshake")
        rep = self.peer.handshake()
        r = self.ep.result(wait)
        if r == ("timeout",):
            # the library still waits for something the script will never send: end the connection, that can only make it fail
            self._shut()
            r = self.ep.result(10.0)
        self.peer.w.done = None
        if r[0] == "exception":
            raise AssertionError("library endpoint thread raised: %r" % (r,))
        if r == ("timeout",) or r[0] != "handshake":
            self.stalled = True
            return None, rep
        return r[1], rep

    def app_data(self, to_lib, from_lib, wait=20.0):
        """after a completed handshake: script -> library -> script.  Returns a list of problems (empty = data flowed)."""
        bad = []
        try:
            if to_lib:
                self.peer.send_app(to_lib)
                r = self.ep.do("recv", len(to_lib) + 16, timeout=wait)
                if r[0] != "recv" or r[1] != 1 or r[2] != to_lib:
                    bad.append("library tls_recv gave %r instead of %d bytes sent by the script" % (r[:2], len(to_lib)))
            if from_lib:
                r = self.ep.do("send", from_lib, timeout=wait)
                if r[0] != "send" or r[1] != 1 or r[2] != len(from_lib):
                    bad.append("library tls_send gave %r" % (r,))
                else:
                    got = self.peer.recv_app()
                    if got != from_lib:
                        bad.append("script decrypted %d bytes that differ from the %d bytes the library sent" % (len(got), len(from_lib)))
        except Stop as s:
            bad.append("script stopped during application data: %s %s" % (s.kind, s.detail))
        return bad

    def stray_then_data(self, rtype, payload, more, wait=20.0):
        """the script sends one protected record that is not application data, then application data `more`; the library reads three
        times.  -> list of (verdict, returned bytes) per read; whatever the reads deliver must be a prefix of `more`."""
        reads = []
        try:
            self.peer.w.send(rtype, payload)
            self.peer.send_app(more)
            self.b.shutdown(socket.SHUT_WR)          # nothing follows: further reads end at EOF instead of blocking
            for _ in range(3):
                r = self.ep.do("recv", len(more) + len(payload) + 64, timeout=wait)
                reads.append((r[0], r[1] if len(r) > 1 else None, r[2] if len(r) > 2 else b""))
                if r[0] != "recv":
                    break
        except Stop as s:
            reads.append(("stop", s.kind, b""))
        return reads

    def _shut(self):
        for s in (self.b, self.a):
            try:
                s.shutdown(socket.SHUT_RDWR)
            except OSError:
                pass

    def finish(self):
        self._shut()
        self.ep.call("quit")
        self.ep.join(5.0)
        for s in (self.a, self.b):
            try:
                s.close()
            except OSError:
                pass


def run(variant, proto, lib_role, behaviour, inst=0, n_inter=1, keysel="attacker", encsel="sibling", p=0, seed=0, app=None, idle=5.0, stray=None):
    """one session.  -> dict(setup, lib (tls_do_handshake result / None), script report, app problems, stalled)"""
    from .ffi import shim
    shim().freeze_time(pki.T0)
    c = creds(variant, proto, "client" if lib_role == "client" else "server", inst, n_inter)
    if lib_role == "client":
        plan = server_plan(c, behaviour, keysel, encsel, p, seed)
    else:
        plan = client_plan(c, behaviour, keysel, p, seed)
    d = Duel(variant, c, lib_role, seed)
    out = {"setup": None, "lib": None, "script": None, "app": None, "stalled": False}
    try:
        st = d.start()
        out["setup"] = st
        if st[:2] != ("setup", "ok"):
            return out
        out["lib"], out["script"] = d.handshake(plan, seed, idle=idle)
        out["stalled"] = d.stalled
        if app is not None and out["lib"] == 1 and out["script"]["completed"]:
            out["app"] = d.app_data(app[0], app[1])
            if stray is not None and out["app"] == []:
                out["stray"] = d.stray_then_data(*stray)
    finally:
        d.finish()
    return out


if __name__ == "__main__":
    # interoperability self-test (needs the worker environment: libasan + vshim preloaded, see vlib/core.py worker_env)
    import sys
    B.ensure(["asan"])
    t0 = time.time()
    for proto in ("tls12", "tlcp"):
        for role, beh in (("client", "honest"), ("server", "honest"), ("server-noauth", "honest-noauth")):
            for n_inter in (0, 1):
                r = run("asan", proto, role, beh, n_inter=n_inter, seed=7, app=(b"ping" * 50, b"pong" * 700), idle=20.0)
                print(proto, role, "inter=%d" % n_inter, "lib=%r" % r["lib"], "script=%r" % r["script"]["completed"], r["script"]["stop"], "app=%r" % r["app"])
    print("wall %.2fs" % (time.time() - t0))
