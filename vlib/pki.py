"""Test PKI: chains built and signed in Python (vlib/ref/x509.py), keys written as the
password-encrypted PKCS#8 PEM files tls_ctx_* expects.  Everything is a function of its
arguments (no randomness, no wall clock): validity is relative to the frozen time T0.
"""
import os, hashlib, ctypes
from . import build as B
from .ffi import lib, Buf, helper, const
from .ref import sm2 as M
from .ref import sigder as D
from .ref import x509 as X

T0 = 1790000000          # the frozen "now" (2026-09-21), see shim().freeze_time
DAY = 86400
PASSWORD = b"P@ssw0rd"


import functools


@functools.lru_cache(maxsize=4096)
def key_of(label):
    d = int.from_bytes(hashlib.sha256(b"verif-key/" + label.encode()).digest(), "big") % (M.N - 2) + 1
    return d, M.pub_of(d)


def key_pem(d, pub, password=PASSWORD, variant="asan"):
    """ENCRYPTED PRIVATE KEY PEM (PBES2: PBKDF2-HMAC-SM3 with 1 iteration + SM4-CBC), via the library's own encoders."""
    l = lib(variant)
    info = D.enc_pkcs8(M.i2b(d), b"\x04" + M.i2b(pub[0]) + M.i2b(pub[1]))
    salt = hashlib.sha256(b"salt" + M.i2b(d)).digest()[:16]
    iv = hashlib.sha256(b"iv" + M.i2b(d)).digest()[:16]
    key = hashlib.pbkdf2_hmac("sm3", password, salt, 1, 16)
    sk = Buf(256, fill=0)
    l.sm4_set_encrypt_key(sk, Buf.of(key))
    enc = Buf(len(info) + 32, fill=0)
    el = ctypes.c_size_t(0)
    assert l.sm4_cbc_padding_encrypt(sk, Buf.of(iv), Buf.of(info), len(info), enc, ctypes.byref(el)) == 1
    out = Buf(1024, fill=0)
    op = ctypes.c_void_p(out.ptr); ol = ctypes.c_size_t(0)
    r = l.pkcs8_enced_private_key_info_to_der(Buf.of(salt), 16, 1, 16, const("OID_hmac_sm3"), const("OID_sm4_cbc"), Buf.of(iv), 16,
                                              enc, el.value, ctypes.byref(op), ctypes.byref(ol))
    assert r == 1
    return X.pem("ENCRYPTED PRIVATE KEY", out.raw(ol.value))


class Chain:
    """root -> intermediates... -> leaf(s).  Toolkit-style by default; `tweak(level, fields)` lets callers deviate."""

    def __init__(self, tag, n_inter=1, tlcp=False, role="server", tweaks=None, now=T0):
        self.tag, self.n_inter, self.tlcp, self.role = tag, n_inter, tlcp, role
        tw = tweaks or {}
        self.now = now
        self.certs = {}     # name -> DER
        self.keys = {}      # name -> (d, pub)
        names = ["root"] + ["ca%d" % i for i in range(n_inter)]
        for nm in names + ["leaf", "enc"]:
            self.keys[nm] = key_of(tag + "/" + nm)
        # root
        prev = "root"
        self.certs["root"] = self._mk("root", "root", ca=True, path_len=None, ku=["keyCertSign", "cRLSign"], tw=tw.get("root", {}))
        for i in range(n_inter):
            nm = "ca%d" % i
            # path length = number of CAs below this one
            self.certs[nm] = self._mk(nm, prev, ca=True, path_len=n_inter - 1 - i, ku=["keyCertSign"], tw=tw.get(nm, {}))
            prev = nm
        self.issuer_of_leaf = prev
        self.certs["leaf"] = self._mk("leaf", prev, ca=None, path_len=None, ku=["digitalSignature"], tw=tw.get("leaf", {}))
        if tlcp:
            self.certs["enc"] = self._mk("enc", prev, ca=None, path_len=None, ku=["keyEncipherment"], tw=tw.get("enc", {}))

    def _mk(self, who, issuer, ca, path_len, ku, tw):
        d_i, pub_i = self.keys[tw.get("signed_by", issuer)]
        d, pub = self.keys[who]
        if "pub_of" in tw:
            pub = self.keys[tw["pub_of"]][1]
        exts = []
        ku = tw.get("ku", ku)
        if ku is not None:
            exts.append(X.ext_key_usage(ku, critical=tw.get("ku_critical", True), padding=tw.get("ku_padding", ())))
        ca = tw.get("ca", ca)
        path_len = tw.get("path_len", path_len)
        if ca is not None:
            if ca == "explicit-false":
                exts.append(X.ext_basic_constraints_explicit_false(tw.get("bc_critical", True)))
            else:
                exts.append(X.ext_basic_constraints(bool(ca), path_len, critical=tw.get("bc_critical", True)))
        if "eku" in tw:
            exts.append(X.ext_eku(tw["eku"]))
        if "unknown_ext" in tw:
            exts.append(X.ext_unknown(tw["unknown_ext"]))
        nb = self.now + tw.get("not_before", -DAY)
        na = self.now + tw.get("not_after", 365 * DAY)
        subj = X.name(tw.get("subject_cn", self.tag + " " + who))
        iss = X.name(tw.get("issuer_cn", self.tag + " " + issuer))
        # whole names given as (attribute, value) lists: names that are related to, but not equal to, the default ones
        if "subject_rdns" in tw:
            subj = X.name(tw["subject_rdns"][-1][1], extra=tw["subject_rdns"][:-1], last=tw["subject_rdns"][-1][0])
        if "issuer_rdns" in tw:
            iss = X.name(tw["issuer_rdns"][-1][1], extra=tw["issuer_rdns"][:-1], last=tw["issuer_rdns"][-1][0])
        serial = int.from_bytes(hashlib.sha256((self.tag + who).encode()).digest()[:12], "big") | (1 << 95)
        t = X.tbs(serial, iss, nb, na, subj, pub, exts, version=tw.get("version", 2), alg=tw.get("alg_inner"),
                  spki_der=X.spki_shaped(pub, tw["spki_shape"]) if "spki_shape" in tw else None)
        return X.cert(t, d_i, pub_i, bad_sig=tw.get("bad_sig"), alg=tw.get("alg_outer"))

    def chain_der(self, include_root=False):
        """leaf [, enc], intermediates from the leaf's issuer upwards [, root]"""
        out = self.certs["leaf"]
        if self.tlcp:
            out += self.certs["enc"]
        for i in reversed(range(self.n_inter)):
            out += self.certs["ca%d" % i]
        if include_root:
            out += self.certs["root"]
        return out

    def chain_pem(self, include_root=False):
        seq = ["leaf"] + (["enc"] if self.tlcp else []) + ["ca%d" % i for i in reversed(range(self.n_inter))] + (["root"] if include_root else [])
        return b"".join(X.pem("CERTIFICATE", self.certs[n]) for n in seq)

    def write(self, dirpath, variant="asan", include_root=False):
        os.makedirs(dirpath, exist_ok=True)
        f = {}

        def w(name, data):
            p = os.path.join(dirpath, name)
            with open(p, "wb") as fh:
                fh.write(data)
            f[name.split(".")[0]] = p.encode()
        w("root.pem", X.pem("CERTIFICATE", self.certs["root"]))
        w("chain.pem", self.chain_pem(include_root=include_root))
        w("leafkey.pem", key_pem(*self.keys["leaf"], variant=variant))
        if self.tlcp:
            w("enckey.pem", key_pem(*self.keys["enc"], variant=variant))
        self.files = f
        return f
