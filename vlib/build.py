"""Build /repo's current working tree into /verif/build/<variant>/ (cmake + ninja).

Only the `gmssl` library target is built.  A flock per variant makes concurrent
checks safe.  Every check calls ensure(variants) first, so an edited source file
is recompiled before anything is tested.
"""
import fcntl, os, subprocess, sys, hashlib, json, time

ROOT = os.path.dirname(os.path.dirname(os.path.abspath(__file__)))
REPO = os.environ.get("VERIF_REPO", "/repo")
_TAG = os.environ.get("VERIF_BUILD_TAG", "")
BUILD = os.path.join(ROOT, "build" + ("-" + _TAG if _TAG else ""))
GUARD = "GMSSL_VERIF"

SAN = "-fsanitize=address,bounds,null,object-size,pointer-overflow -fno-sanitize-recover=all -fno-omit-frame-pointer"

VARIANTS = {
    # name: (compiler, cflags, shared?, cmake options)
    "asan":     ("gcc",   "-g -O1 " + SAN, True,  []),
    "plain":    ("gcc",   "-g -O2", True, []),
    "fuzz":     ("clang", "-g -O1 -fsanitize=fuzzer-no-link " + SAN, False, []),
    "fuzzcov":  ("clang", "-g -O1 -fsanitize=fuzzer-no-link " + SAN + " -fprofile-instr-generate -fcoverage-mapping", False, []),
    "msan":     ("clang", "-g -O1 -fsanitize=memory -fsanitize-memory-track-origins -fno-omit-frame-pointer", False, []),
    "tsan":     ("clang", "-g -O1 -fsanitize=thread -fno-omit-frame-pointer", False, []),
    "smallfp":  ("gcc",   "-g -O1 " + SAN, True, ["-DENABLE_SMALL_FOOTPRINT=ON"]),
    "sm2amd64": ("gcc",   "-g -O1 " + SAN, True, ["-DENABLE_SM2_AMD64=ON", "-DENABLE_ASM_UNDERSCORE_PREFIX=OFF"]),
    "sm4aesni": ("gcc",   "-g -O1 " + SAN, True, ["-DENABLE_SM4_AESNI=ON"]),
    "sm4avx2":  ("gcc",   "-g -O1 " + SAN, True, ["-DENABLE_SM4_AVX2=ON"]),
}


def libpath(variant):
    shared = VARIANTS[variant][2]
    return os.path.join(BUILD, variant, "bin", "libgmssl.so" if shared else "libgmssl.a")


def _run(cmd, log, **kw):
    with open(log, "ab") as f:
        f.write(("\n$ " + " ".join(cmd) + "\n").encode())
        f.flush()
        return subprocess.run(cmd, stdout=f, stderr=subprocess.STDOUT, **kw).returncode


def ensure_variant(variant):
    cc, cflags, shared, opts = VARIANTS[variant]
    bdir = os.path.join(BUILD, variant)
    os.makedirs(bdir, exist_ok=True)
    log = os.path.join(bdir, "verif_build.log")
    lock = open(os.path.join(bdir, ".lock"), "w")
    fcntl.flock(lock, fcntl.LOCK_EX)
    try:
        cfg = json.dumps([cc, cflags, shared, opts, REPO])
        stamp = os.path.join(bdir, ".verif_cfg")
        have = open(stamp).read() if os.path.exists(stamp) else None
        if have != cfg or not os.path.exists(os.path.join(bdir, "build.ninja")):
            open(log, "w").close()
            cmd = ["cmake", "-G", "Ninja", "-S", REPO, "-B", bdir,
                   "-DCMAKE_BUILD_TYPE=None",
                   "-DCMAKE_C_COMPILER=" + cc,
                   "-DCMAKE_C_FLAGS=" + cflags + " -D" + GUARD,
                   "-DBUILD_SHARED_LIBS=" + ("ON" if shared else "OFF")] + opts
            if _run(cmd, log) != 0:
                raise RuntimeError("cmake configure failed for %s, see %s" % (variant, log))
            open(stamp, "w").write(cfg)
        if _run(["cmake", "--build", bdir, "--target", "gmssl", "-j", str(os.cpu_count() or 4)], log) != 0:
            raise RuntimeError("build failed for %s, see %s" % (variant, log))
    finally:
        fcntl.flock(lock, fcntl.LOCK_UN)
        lock.close()
    return libpath(variant)


def ensure_tool(variant="plain"):
    """the gmssl command-line tool of a variant (CMake target gmssl-bin), built from /repo's working tree next to the library"""
    ensure_variant(variant)
    bdir = os.path.join(BUILD, variant)
    log = os.path.join(bdir, "verif_build.log")
    lock = open(os.path.join(bdir, ".lock"), "w")
    fcntl.flock(lock, fcntl.LOCK_EX)
    try:
        if _run(["cmake", "--build", bdir, "--target", "gmssl-bin", "-j", str(os.cpu_count() or 4)], log) != 0:
            raise RuntimeError("tool build failed for %s, see %s" % (variant, log))
    finally:
        fcntl.flock(lock, fcntl.LOCK_UN)
        lock.close()
    return os.path.join(bdir, "bin", "gmssl")


def defines(variant="asan"):
    """The -D flags cmake gave the library objects (struct layouts depend on them)."""
    import re
    p = os.path.join(BUILD, variant, "build.ninja")
    for line in open(p):
        if line.strip().startswith("DEFINES ="):
            return [d for d in line.split("=", 1)[1].split() if d.startswith("-D") and d != "-Dgmssl_EXPORTS"]
    return []


def _cc_native(src, out, extra, cc="gcc"):
    srcp = os.path.join(ROOT, "native", src)
    os.makedirs(os.path.dirname(out), exist_ok=True)
    lockp = out + ".lock"
    lock = open(lockp, "w")
    fcntl.flock(lock, fcntl.LOCK_EX)
    try:
        if os.path.exists(out) and os.path.getmtime(out) >= os.path.getmtime(srcp):
            return out
        cmd = [cc] + extra + ["-o", out + ".tmp", srcp]
        r = subprocess.run(cmd, capture_output=True, text=True)
        if r.returncode != 0:
            raise RuntimeError("native build failed: %s\n%s" % (" ".join(cmd), r.stderr))
        os.replace(out + ".tmp", out)
    finally:
        fcntl.flock(lock, fcntl.LOCK_UN)
        lock.close()
    return out


def ensure_shim():
    return _cc_native("vshim.c", os.path.join(BUILD, "native", "vshim.so"),
                      ["-O2", "-g", "-fPIC", "-shared", "-ldl"])


def asan_rt():
    return subprocess.check_output(["gcc", "-print-file-name=libasan.so"], text=True).strip()


def ensure(variants):
    t0 = time.time()
    out = {}
    # build variants in parallel processes (ninja already uses all cores, but configure is serial)
    import concurrent.futures as cf
    with cf.ThreadPoolExecutor(max_workers=4) as ex:
        futs = {v: ex.submit(ensure_variant, v) for v in variants}
        for v, f in futs.items():
            out[v] = f.result()
    ensure_shim()
    return out, time.time() - t0


if __name__ == "__main__":
    vs = sys.argv[1:] or list(VARIANTS)
    if vs == ["all"]:
        vs = list(VARIANTS)
    o, dt = ensure(vs)
    for k, v in o.items():
        print(k, v)
    print("build wall %.1fs" % dt)
