"""Driving the top-level CMS interface (include/gmssl/cms.h: cms_sign/verify, cms_envelop/deenvelop, cms_encrypt/decrypt,
cms_sign_and_envelop/deenvelop_and_verify) through ctypes, key objects of every provenance, certificates from the
Python builder (vlib/ref/x509.py, signed in Python), field location inside a message with vlib/ref/der.py, and an
independent model of the two cryptographic layers (SM2 from vlib/ref/sm2.py, SM4-CBC from OpenSSL via vlib/ref/blk.py)."""
import ctypes, struct
from ctypes import c_void_p, c_size_t, c_int, byref
from .ffi import Buf, sizeof, const, shim, helper
from .ref import der as D
from .ref import sm2 as M
from .ref import sigder as SD
from .ref import x509 as RX
from .ref import modes as MO
from .sm2io import key_in, pt_in, pt_get, pt_raw, z_in, to_mont_p
from . import pki

OID_CMS = (1, 2, 156, 10197, 6, 1, 4, 2)
CT_NAMES = {"data": 1, "signedData": 2, "envelopedData": 3, "signedAndEnvelopedData": 4, "encryptedData": 5, "keyAgreementInfo": 6}
OID_SM3 = (1, 2, 156, 10197, 1, 401)
OID_SM4_CBC = (1, 2, 156, 10197, 1, 104, 2)
PROVENANCE = ["direct", "jacobian", "set", "generate", "der-ec", "der-p8", "pem-ec", "pem-p8"]
CA_D, CA_PUB = pki.key_of("c16/ca")


def ctype_id(l, name):
    return l.cms_content_type_from_name(name.encode())


def rd(p, n):
    return ctypes.string_at(p.value, n.value) if (p.value and n.value) else b""


def outp():
    return c_void_p(None), c_size_t(0)


# ---------------------------------------------------------------------------------------------------
# key objects

def _fwrite(fn, cap=4096):
    dll = helper()[0]
    b = Buf(cap, fill=0)
    fp = dll.vh_fmemopen(b.ptr, cap, b"w")
    r = fn(fp)
    dll.vh_fclose(fp)
    raw = b.raw()
    return r, raw[:raw.index(0)] if 0 in raw else raw


def _fread(text, fn):
    dll = helper()[0]
    b = Buf.of(text)
    fp = dll.vh_fmemopen(b.ptr, len(text), b"r")
    r = fn(fp)
    dll.vh_fclose(fp)
    return r


def _to_der(fn):
    n = c_size_t(0)
    if fn(None, byref(n)) != 1:
        return None
    b = Buf(n.value, fill=0)
    p = c_void_p(b.ptr)
    n2 = c_size_t(0)
    if fn(byref(p), byref(n2)) != 1:
        return None
    return b.raw(n2.value)


def generated_d(l, seed):
    """the private key sm2_key_generate produces under scripted entropy `seed`"""
    k = Buf(sizeof("SM2_KEY"), fill=0)
    sh = shim()
    sh.stream(seed)
    try:
        r = l.sm2_key_generate(k)
    finally:
        sh.reset()
    if r != 1:
        return None
    return int.from_bytes(k.raw(32, 96), "little")


def key_object(l, d, how, lam=2, seed=1):
    """an SM2_KEY holding private key d, obtained the way `how` says -> Buf or None (the import itself failed)"""
    if how == "direct":
        return key_in(d=d)
    if how == "jacobian":
        k = key_in(d=d)
        k.write(pt_in(M.pub_of(d), lam).raw(), 0)
        return k
    k = Buf(sizeof("SM2_KEY"), fill=0)
    if how == "set":
        return k if l.sm2_key_set_private_key(k, z_in(d)) == 1 else None
    if how == "generate":
        sh = shim()
        sh.stream(seed)
        try:
            r = l.sm2_key_generate(k)
        finally:
            sh.reset()
        return k if (r == 1 and int.from_bytes(k.raw(32, 96), "little") == d) else None
    src = key_in(d=d)
    if how in ("der-ec", "der-p8"):
        to = l.sm2_private_key_to_der if how == "der-ec" else l.sm2_private_key_info_to_der
        der = _to_der(lambda o, n: to(src, o, n))
        if der is None:
            return None
        ib = Buf.of(der)
        ip, il = c_void_p(ib.ptr), c_size_t(len(der))
        if how == "der-ec":
            r = l.sm2_private_key_from_der(k, byref(ip), byref(il))
        else:
            a, al = outp()
            r = l.sm2_private_key_info_from_der(k, byref(a), byref(al), byref(ip), byref(il))
        return k if (r == 1 and il.value == 0) else None
    if how in ("pem-ec", "pem-p8"):
        to = l.sm2_private_key_to_pem if how == "pem-ec" else l.sm2_private_key_info_to_pem
        fr = l.sm2_private_key_from_pem if how == "pem-ec" else l.sm2_private_key_info_from_pem
        r, text = _fwrite(lambda fp: to(src, fp))
        if r != 1:
            return None
        return k if _fread(text, lambda fp: fr(k, fp)) == 1 else None
    raise AssertionError(how)


def key_value(k):
    """(affine public point, private scalar, Z is one) of an SM2_KEY block"""
    aff, ok = pt_get(k)
    return aff if ok else None, int.from_bytes(k.raw(32, 96), "little"), pt_raw(k)[2] == to_mont_p(1)


# ---------------------------------------------------------------------------------------------------
# certificates (Python builder, signed in Python by a test CA)

def party_cert(cn, issuer_cn, serial, d, ku=("digitalSignature", "keyEncipherment")):
    """issuer_cn "toolkit:<cn>" gives the six-attribute issuer name the toolkit's own examples use (C, ST, L, O, OU, CN)"""
    pub = M.pub_of(d)
    if issuer_cn.startswith("maxdn:"):
        # an issuer name with every attribute at its X.520 upper bound (about 520 bytes of DER): legal, and what makes a RecipientInfo large
        tag = issuer_cn[6:]
        fill = lambda n: (tag + " " + "x" * n)[:n]
        issuer = RX.name(fill(64), extra=(("C", "CN"), ("ST", fill(128)), ("L", fill(128)), ("O", fill(64)), ("OU", fill(64))))
    else:
        issuer = RX.name(issuer_cn[8:]) if issuer_cn.startswith("toolkit:") else RX.name(issuer_cn, extra=())
    t = RX.tbs(serial, issuer, pki.T0 - pki.DAY, pki.T0 + 365 * pki.DAY, RX.name(cn, extra=()), pub, [RX.ext_key_usage(list(ku))])
    return RX.cert(t, CA_D, CA_PUB)


def cert_issuer_serial(cert):
    tbs = D.parse_one(cert).child(0)          # [0] version, serial, signature, issuer, ...
    return tbs.child(3).raw, tbs.child(1).raw


# ---------------------------------------------------------------------------------------------------
# the top-level interface

def signers_array(items):
    """CMS_CERTS_AND_KEY[]: items = [(certificate DER, SM2_KEY Buf)] -> (Buf, keep-alive list)"""
    keep, raw = [], b""
    for cert, key in items:
        cb = Buf.of(cert)
        keep += [cb, key]
        raw += struct.pack("<QQQ", cb.ptr, len(cert), key.ptr)
    arr = Buf.of(raw)
    keep.append(arr)
    return arr, keep


def _sized(call, seed):
    """two calls: cms == NULL to learn the length, then into a block of exactly that length"""
    sh = shim()
    sh.stream(seed)
    try:
        n = c_size_t(0)
        r = call(None, byref(n))
        if r != 1:
            return r, None
        out = Buf(n.value, fill=0x5A)
        n2 = c_size_t(0)
        r = call(out, byref(n2))
        if r != 1:
            return r, None
        return (1 if n2.value == n.value else -99), out.raw(n2.value)
    finally:
        sh.reset()


def sign(l, items, ctype, content, seed, crls=None):
    arr, keep = signers_array(items)
    cb = _cbuf(content)
    rb, rl = _opt(crls)
    return _sized(lambda o, n: l.cms_sign(o, n, arr, len(items), ctype, cb, len(content), rb, rl), seed)


def verify(l, cms):
    cb = Buf.of(cms)
    ct = c_int(-99)
    c, ce, cr, si = outp(), outp(), outp(), outp()
    r = l.cms_verify(cb, len(cms), None, 0, None, 0, byref(ct), byref(c[0]), byref(c[1]), byref(ce[0]), byref(ce[1]), byref(cr[0]), byref(cr[1]), byref(si[0]), byref(si[1]))
    if r != 1:
        return r, None
    return r, dict(ctype=ct.value, content=rd(*c), certs=rd(*ce), crls=rd(*cr), signer_infos=rd(*si))


def _opt(b):
    return (Buf.of(b), len(b)) if b is not None else (None, 0)


# an empty content can be handed over as (valid pointer, 0) or as (NULL, 0); the checks set this per case
EMPTY_AS_NULL = False


def _cbuf(content):
    return None if (not content and EMPTY_AS_NULL) else Buf.of(content)


def envelop(l, certs, key, iv, ctype, content, s1, s2, seed):
    cb, kb, ib, tb = Buf.of(b"".join(certs)), Buf.of(key), Buf.of(iv), _cbuf(content)
    (s1b, s1l), (s2b, s2l) = _opt(s1), _opt(s2)
    alg = const("OID_sm4_cbc")
    return _sized(lambda o, n: l.cms_envelop(o, n, cb, cb.n, alg, kb, len(key), ib, len(iv), ctype, tb, len(content), s1b, s1l, s2b, s2l), seed)


def envelop_built(l, certs, key, iv, ctype, content, s1, s2, seed):
    """the same EnvelopedData assembled piece by piece, as a sender that encrypts the content itself does: one
    cms_recipient_infos_add_recipient_info per recipient, then cms_enveloped_data_to_der inside a ContentInfo header.
    enced: SM4-CBC(key, iv, content || PKCS#7 padding), computed by the caller's reference.  -> (ret, message)"""
    sh = shim()
    sh.stream(seed)
    try:
        cap = 700 * len(certs)
        d = Buf(cap, fill=0x5A)
        dlen = c_size_t(0)
        kb = Buf.of(key)
        for cert in certs:
            cb = Buf.of(cert)
            iss, ser = outp(), outp()
            pub = Buf(sizeof("SM2_KEY"), fill=0)
            if l.x509_cert_get_issuer_and_serial_number(cb, len(cert), byref(iss[0]), byref(iss[1]), byref(ser[0]), byref(ser[1])) != 1:
                return -11, None
            if l.x509_cert_get_subject_public_key(cb, len(cert), pub) != 1:
                return -12, None
            r = l.cms_recipient_infos_add_recipient_info(d, byref(dlen), cap, pub, iss[0], iss[1], ser[0], ser[1], kb, len(key))
            if r != 1:
                return r, None
        enced = MO.cbc_encrypt_pad("sm4", key, iv, content)
        eb, ib = Buf.of(enced), Buf.of(iv)
        (s1b, s1l), (s2b, s2l) = _opt(s1), _opt(s2)
        alg = const("OID_sm4_cbc")
        rinfos = Buf.of(d.raw(dlen.value))
        inner = _to_der(lambda o, n: l.cms_enveloped_data_to_der(1, rinfos, dlen.value, ctype, alg, ib, len(iv), eb, len(enced), s1b, s1l, s2b, s2l, o, n))
        if inner is None:
            return -13, None
        env = ctype_id(l, "envelopedData")
        head = _to_der(lambda o, n: l.cms_content_info_header_to_der(env, len(inner), o, n))
        if head is None:
            return -14, None
        return 1, head + inner
    finally:
        sh.reset()


def deenvelop(l, cms, keyobj, cert):
    cb, ce = Buf.of(cms), Buf.of(cert)
    ct = c_int(-99)
    out = Buf(len(cms), fill=0xA5)          # the capacity tools/cmsdecrypt.c provides
    ol = c_size_t(0)
    ri, s1, s2 = outp(), outp(), outp()
    r = l.cms_deenvelop(cb, len(cms), keyobj, ce, len(cert), byref(ct), out, byref(ol), byref(ri[0]), byref(ri[1]), byref(s1[0]), byref(s1[1]), byref(s2[0]), byref(s2[1]))
    if r != 1:
        return r, None
    return r, dict(ctype=ct.value, content=out.raw(ol.value), rcpt_infos=rd(*ri), s1=rd(*s1) if s1[0].value else None, s2=rd(*s2) if s2[0].value else None)


def encrypt(l, key, iv, ctype, content, s1, s2):
    kb, ib, tb = Buf.of(key), Buf.of(iv), _cbuf(content)
    (s1b, s1l), (s2b, s2l) = _opt(s1), _opt(s2)
    alg = const("OID_sm4_cbc")
    return _sized(lambda o, n: l.cms_encrypt(o, n, alg, kb, len(key), ib, len(iv), ctype, tb, len(content), s1b, s1l, s2b, s2l), 1)


def decrypt(l, cms, key):
    cb, kb = Buf.of(cms), Buf.of(key)
    alg, ct = c_int(-99), c_int(-99)
    out = Buf(len(cms), fill=0xA5)
    ol = c_size_t(0)
    s1, s2 = outp(), outp()
    r = l.cms_decrypt(cb, len(cms), byref(alg), kb, len(key), byref(ct), out, byref(ol), byref(s1[0]), byref(s1[1]), byref(s2[0]), byref(s2[1]))
    if r != 1:
        return r, None
    return r, dict(alg=alg.value, ctype=ct.value, content=out.raw(ol.value), s1=rd(*s1) if s1[0].value else None, s2=rd(*s2) if s2[0].value else None)


def sign_and_envelop(l, items, certs, key, iv, ctype, content, s1, s2, seed, crls=None):
    arr, keep = signers_array(items)
    cb, kb, ib, tb = Buf.of(b"".join(certs)), Buf.of(key), Buf.of(iv), _cbuf(content)
    (s1b, s1l), (s2b, s2l), (rb, rl) = _opt(s1), _opt(s2), _opt(crls)
    alg = const("OID_sm4_cbc")
    return _sized(lambda o, n: l.cms_sign_and_envelop(o, n, arr, len(items), cb, cb.n, alg, kb, len(key), ib, len(iv), ctype, tb, len(content), rb, rl,
                                                      s1b, s1l, s2b, s2l), seed)


_CRL = {}


def a_crl(l):
    """one CRL of the test CA (issued through the library once per process; CMS carries it as an opaque value)"""
    if id(l) not in _CRL:
        from . import x509lib as X
        name = X.lib_name(l, {"via": "set", "attrs": [{"t": "CN", "tag": 19, "v": "CA"}]})
        rev = X.lib_revoked(l, {"via": "raw", "serial": "0a", "date": pki.T0, "reason": 1, "invdate": -1, "issuer": []})
        _CRL[id(l)] = X.issue_crl(l, 1, name, pki.T0, pki.T0 + 30 * pki.DAY, rev, b"", CA_D, X.DEFAULT_ID, 11)
    return _CRL[id(l)]


def deenvelop_and_verify(l, cms, keyobj, cert):
    cb, ce = Buf.of(cms), Buf.of(cert)
    ct = c_int(-99)
    out = Buf(len(cms), fill=0xA5)
    ol = c_size_t(0)
    ri, si, sc, sr, s1, s2 = [outp() for _ in range(6)]
    r = l.cms_deenvelop_and_verify(cb, len(cms), keyobj, ce, len(cert), None, 0, None, 0, byref(ct), out, byref(ol), byref(ri[0]), byref(ri[1]), byref(si[0]), byref(si[1]),
                                   byref(sc[0]), byref(sc[1]), byref(sr[0]), byref(sr[1]), byref(s1[0]), byref(s1[1]), byref(s2[0]), byref(s2[1]))
    if r != 1:
        return r, None
    return r, dict(ctype=ct.value, content=out.raw(ol.value), rcpt_infos=rd(*ri), signer_infos=rd(*si), certs=rd(*sc), crls=rd(*sr), s1=rd(*s1) if s1[0].value else None,
                   s2=rd(*s2) if s2[0].value else None)


# ---------------------------------------------------------------------------------------------------
# locating fields (reference TLV parser) and the independent model

class Msg:
    """fields of a ContentInfo produced by the library, located with ref/der.py; raises DERError if the shape is unexpected"""

    def __init__(self, cms):
        self.cms = cms
        root = D.parse_one(cms)
        self.root = root
        oid = root.child(0).value()
        if oid[:-1] != OID_CMS:
            raise D.DERError("not a GM/T 0010 content type")
        self.kind = oid[-1]
        body = root.child(1).child(0)
        self.body = body
        ch = list(body.children)
        self.signer_infos = self.rcpt_infos = self.certs = self.content_info = self.enc_info = None
        if self.kind == 2:
            self.digest_algs, self.content_info = ch[1], ch[2]
            rest = ch[3:]
        elif self.kind == 3:
            self.rcpt_infos, self.enc_info = ch[1], ch[2]
            rest = []
        elif self.kind == 5:
            self.enc_info = ch[1]
            rest = []
        elif self.kind == 4:
            self.rcpt_infos, self.digest_algs, self.enc_info = ch[1], ch[2], ch[3]
            rest = ch[4:]
        else:
            raise D.DERError("unexpected content type %d" % self.kind)
        self.crls = None
        for x in rest:
            if x.tag == 0xA0:
                self.certs = x
            elif x.tag == 0xA1:
                self.crls = x
            elif x.tag == 0x31:
                self.signer_infos = x
        if self.content_info is not None:
            self.inner_type = self.content_info.child(0).value()[-1]
            self.content = self.content_info.child(1).child(0)           # the content TLV (OCTET STRING for data)
        if self.enc_info is not None:
            e = self.enc_info.children
            self.inner_type = e[0].value()[-1]
            self.iv = e[1].child(1)
            self.enc_alg = e[1].child(0).value()
            self.enc_content = [x for x in e[2:] if x.tag == 0x80][0]
            self.s1 = ([x.content for x in e[2:] if x.tag == 0x81] or [None])[0]
            self.s2 = ([x.content for x in e[2:] if x.tag == 0x82] or [None])[0]

    def signatures(self):
        """[(SignerInfo node, encryptedDigest OCTET STRING node, issuer raw, serial raw)]"""
        out = []
        for si in self.signer_infos.children:
            sig = [x for x in si.children if x.tag == 0x04][0]
            ias = si.child(1)
            out.append((si, sig, ias.child(0).raw, ias.child(1).raw))
        return out

    def enc_keys(self):
        out = []
        for ri in self.rcpt_infos.children:
            ek = [x for x in ri.children if x.tag == 0x04][0]
            ias = ri.child(1)
            out.append((ri, ek, ias.child(0).raw, ias.child(1).raw))
        return out


def signed_digest(m):
    """what GM/T 0010 signs: SM3 over the ContentInfo header and content (the whole inner ContentInfo TLV; no Z value)"""
    return M.sm3(m.content_info.raw)


def se_digest(ctype_arc, content):
    """signedAndEnvelopedData: SM3 over the header of a ContentInfo carrying `content` directly under [0], and the content"""
    inner = D.tlv(0xA0, content)
    return M.sm3(D.enc_seq(D.enc_oid(OID_CMS + (ctype_arc,)), inner))


def model_signer_ok(dgst, sig_bytes, pub):
    rs = SD.parse_sig(sig_bytes)
    return rs is not None and M.verify_rs(pub, dgst, *rs)


def model_open(m, idx, d):
    """recipient idx opens with private key d: (content-encryption key, content) or None (independent of the library)"""
    ct = SD.parse_ct(m.enc_keys()[idx][1].content)
    if ct is None:
        return None
    key = M.decrypt(d, (ct[0], ct[1]), ct[2], ct[3])
    if key is None or len(key) != 16 or m.enc_alg != OID_SM4_CBC:
        return None
    return key, MO.cbc_decrypt_pad("sm4", key, m.iv.content, m.enc_content.content)


def flip(buf, bit):
    b = bytearray(buf)
    b[bit >> 3] ^= 0x80 >> (bit & 7)
    return bytes(b)


def value_bits(node):
    return list(range(8 * node.coff, 8 * node.end))


def header_bits(node):
    return list(range(8 * node.off, 8 * node.coff))
