import sys, os, argparse, importlib
sys.path.insert(0, os.path.dirname(os.path.dirname(os.path.abspath(__file__))))
from vlib import core


def main():
    ap = argparse.ArgumentParser()
    ap.add_argument("prop")
    ap.add_argument("--tier", default=os.environ.get("VERIF_TIER", "quick"), choices=["quick", "thorough"])
    ap.add_argument("--replay")
    ap.add_argument("--only")
    ap.add_argument("--scale", type=float, default=1.0)
    ap.add_argument("--seed", type=int, default=None)
    a = ap.parse_args()
    seed = a.seed if a.seed is not None else int(os.environ.get("VERIF_SEED", "1") or "1")
    mod = importlib.import_module("props." + a.prop)
    if a.replay:
        return core.replay(mod.P, a.replay)
    only = set(a.only.split(",")) if a.only else None
    return core.drive(mod.P, a.tier, seed, only=only, scale=a.scale)


if __name__ == "__main__":
    sys.exit(main())
