"""Issuing X.509 objects THROUGH THE LIBRARY (x509_cer.h, x509_ext.h, x509_req.h, x509_crl.h) from JSON field
specifications, together with an independent statement of what was supplied:

  * every builder call goes into an exactly-sized heap block (ASan red zones),
  * every supplied field also gets its reference DER encoding from vlib/ref/der.py (X.690 / RFC 5280 / RFC 2986),
    so that "parses as issued" can be decided by byte equality of the issued to-be-signed part with the reference,
  * parse_signed()/parse_cert()/parse_req()/parse_crl() read an issued object back with the reference TLV parser
    (no library code), get_*_details() read it back with the library.

Field specifications are plain dicts (they travel inside the Hypothesis-drawn case):
  name  {"via": "add"|"set", "attrs": [{"t": "CN", "tag": 12, "v": "text"}, ...], "multi": bool}
  ext   {"k": kind, "crit": -1|0|1, ...kind specific...}            (see EXT_KINDS)
  gn    {"c": choice, ...}                                          (GeneralName)
"""
import ctypes
from ctypes import c_void_p, c_size_t, c_int, c_long, byref
from .ffi import Buf, sizeof, shim
from .ref import der as D
from .ref import sm2 as M
from .ref import sigder as SD
from .sm2io import key_in, pt_get, pt_in

PRINTABLE, UTF8, TELETEX, BMP, IA5 = 19, 12, 20, 30, 22
OID_SM2SIGN_SM3 = (1, 2, 156, 10197, 1, 501)
OID_EC_PUBKEY = (1, 2, 840, 10045, 2, 1)
OID_SM2 = (1, 2, 156, 10197, 1, 301)
ALG_SM2SIGN = D.enc_seq(D.enc_oid(OID_SM2SIGN_SM3))
Y2050 = 2524608000
DEFAULT_ID = b"1234567812345678"

# attribute short name -> (library name for x509_name_type_from_name, last arc of 2.5.4.x, max bytes, printable only)
AT = {
    "C": ("countryName", 6, 2, True), "ST": ("stateOrProvinceName", 8, 128, False), "L": ("localityName", 7, 128, False),
    "O": ("organizationName", 10, 64, False), "OU": ("organizationalUnitName", 11, 64, False), "CN": ("commonName", 3, 64, False),
    "surname": ("surname", 4, 200, False), "givenName": ("givenName", 42, 200, False), "initials": ("initials", 43, 200, False),
    "generationQualifier": ("generationQualifier", 44, 200, False), "title": ("title", 12, 64, False),
    "serialNumber": ("serialNumber", 5, 64, True), "dnQualifier": ("dnQualifier", 46, 64, True), "pseudonym": ("pseudonym", 65, 128, False),
}
_DEDICATED = {"ST": "x509_name_add_state_or_province_name", "L": "x509_name_add_locality_name", "O": "x509_name_add_organization_name",
              "OU": "x509_name_add_organizational_unit_name", "CN": "x509_name_add_common_name"}

EXT_OID = {"aki": (2, 5, 29, 35), "ski": (2, 5, 29, 14), "ku": (2, 5, 29, 15), "cp": (2, 5, 29, 32), "pm": (2, 5, 29, 33),
           "san": (2, 5, 29, 17), "ian": (2, 5, 29, 18), "sda": (2, 5, 29, 9), "bc": (2, 5, 29, 19), "nc": (2, 5, 29, 30),
           "pc": (2, 5, 29, 36), "eku": (2, 5, 29, 37), "cdp": (2, 5, 29, 31), "iap": (2, 5, 29, 54), "fcrl": (2, 5, 29, 46),
           "aia": (1, 3, 6, 1, 5, 5, 7, 1, 1),
           "crlnum": (2, 5, 29, 20), "delta": (2, 5, 29, 27), "idp": (2, 5, 29, 28),
           "reason": (2, 5, 29, 21), "invdate": (2, 5, 29, 24), "certissuer": (2, 5, 29, 29)}
EXT_LIBNAME = {"aki": "AuthorityKeyIdentifier", "ski": "SubjectKeyIdentifier", "ku": "KeyUsage", "cp": "CertificatePolicies",
               "pm": "PolicyMappings", "san": "SubjectAltName", "ian": "IssuerAltName", "sda": "SubjectDirectoryAttributes",
               "bc": "BasicConstraints", "nc": "NameConstraints", "pc": "PolicyConstraints", "eku": "ExtKeyUsage",
               "cdp": "CRLDistributionPoints", "iap": "InhibitAnyPolicy", "fcrl": "FreshestCRL", "aia": "AuthorityInformationAccess"}
KP = {"anyExtendedKeyUsage": (2, 5, 29, 37, 0), "serverAuth": (1, 3, 6, 1, 5, 5, 7, 3, 1), "clientAuth": (1, 3, 6, 1, 5, 5, 7, 3, 2),
      "codeSigning": (1, 3, 6, 1, 5, 5, 7, 3, 3), "emailProtection": (1, 3, 6, 1, 5, 5, 7, 3, 4), "timeStamping": (1, 3, 6, 1, 5, 5, 7, 3, 8),
      "OCSPSigning": (1, 3, 6, 1, 5, 5, 7, 3, 9)}
OID_AD_OCSP = (1, 3, 6, 1, 5, 5, 7, 48, 1)
OID_AD_CA_ISSUERS = (1, 3, 6, 1, 5, 5, 7, 48, 2)


class Refused(Exception):
    """a library builder returned != 1 for a value of its documented domain"""

    def __init__(self, what, ret, key):
        Exception.__init__(self, "%s returned %d" % (what, ret))
        self.what, self.ret, self.key = what, ret, key


def need(r, what, key):
    if r != 1:
        raise Refused(what, r, key)


def u32s(vals):
    return Buf.of(b"".join(int(v).to_bytes(4, "little") for v in vals))


def emit(fn, what, key):
    """two passes of an encoder taking (uint8_t **out, size_t *outlen): dry run, then into a block of exactly that size"""
    n = c_size_t(0)
    need(fn(None, byref(n)), what + " (dry run)", key)
    b = Buf(n.value, fill=0x5A)
    p = c_void_p(b.ptr)
    n2 = c_size_t(0)
    need(fn(byref(p), byref(n2)), what, key)
    if n2.value != n.value or (p.value or 0) - b.ptr != n.value:
        raise Refused("%s: dry run announced %d bytes, real run wrote %d" % (what, n.value, n2.value), 1, key + "/dry-run-length")
    return b.raw()


def rd(p, n):
    return ctypes.string_at(p.value, n.value) if (p.value and n.value) else b""


def outp():
    return c_void_p(None), c_size_t(0)


# ---------------------------------------------------------------------------------------------------
# names

def attr_bytes(a):
    if a["tag"] == BMP:
        return a["v"].encode("utf-16-be")
    if a["tag"] == TELETEX:
        return a["v"].encode("latin-1")
    return a["v"].encode("utf-8")


def set_tag(s):
    """the tag x509_name_set chooses: PrintableString when the text is printable, else UTF8String"""
    return PRINTABLE if D.is_printable(s) else UTF8


def ref_atv(a, tag=None):
    return D.enc_seq(D.enc_oid((2, 5, 4, AT[a["t"]][1])), D.tlv(tag or a["tag"], attr_bytes(a)))


def ref_name(spec):
    """content octets of Name (the RDN SETs, without the outer SEQUENCE header) as the library hands them around"""
    attrs = spec["attrs"]
    if spec["via"] == "set":
        return b"".join(D.enc_set(ref_atv(a, PRINTABLE if a["t"] == "C" else set_tag(a["v"]))) for a in attrs)
    out, i = b"", 0
    while i < len(attrs):
        if spec.get("multi") and i + 1 < len(attrs) and i == 0:
            out += D.enc_set(ref_atv(attrs[0]), ref_atv(attrs[1]))
            i += 2
        else:
            out += D.enc_set(ref_atv(attrs[i]))
            i += 1
    return out


def lib_name(l, spec, cap=2048):
    """Name content built by x509_name_add_* / x509_name_set into a block of `cap` bytes"""
    attrs = spec["attrs"]
    dst = Buf(cap, fill=0xA5)
    dl = c_size_t(0)
    if spec["via"] == "set":
        by = {a["t"]: a["v"].encode("utf-8") + b"\0" for a in attrs}
        arg = [Buf.of(by[k]) if k in by else None for k in ("C", "ST", "L", "O", "OU", "CN")]
        need(l.x509_name_set(dst, byref(dl), cap, *arg), "x509_name_set(%r)" % sorted(by), "name/set-refused")
        return dst.raw(dl.value)
    i = 0
    while i < len(attrs):
        a = attrs[i]
        v = attr_bytes(a)
        vb = Buf.of(v)
        what = "x509_name_add(%s, tag %d, %d bytes)" % (a["t"], a["tag"], len(v))
        if spec.get("multi") and i == 0 and len(attrs) > 1:
            b = attrs[1]
            bv = attr_bytes(b)
            more = emit(lambda o, n: l.x509_attr_type_and_value_to_der(l.x509_name_type_from_name(AT[b["t"]][0].encode()), b["tag"], Buf.of(bv), len(bv), o, n),
                        "x509_attr_type_and_value_to_der(%s)" % b["t"], "name/attr-refused")
            need(l.x509_name_add_rdn(dst, byref(dl), cap, l.x509_name_type_from_name(AT[a["t"]][0].encode()), a["tag"], vb, len(v), Buf.of(more), len(more)),
                 what + " + second attribute", "name/add-refused")
            i += 2
            continue
        if a["t"] == "C":
            r = l.x509_name_add_country_name(dst, byref(dl), cap, vb)
        elif a["t"] in _DEDICATED:
            r = getattr(l, _DEDICATED[a["t"]])(dst, byref(dl), cap, a["tag"], vb, len(v))
        else:
            r = l.x509_name_add_rdn(dst, byref(dl), cap, l.x509_name_type_from_name(AT[a["t"]][0].encode()), a["tag"], vb, len(v), None, 0)
        need(r, what, "name/add-refused")
        i += 1
    return dst.raw(dl.value)


# ---------------------------------------------------------------------------------------------------
# GeneralName(s)

def ref_gn(g):
    c = g["c"]
    if c in (1, 2, 6):
        return D.tlv(0x80 | c, g["s"].encode("ascii"))
    if c == 7:
        return D.tlv(0x87, bytes.fromhex(g["ip"]))
    if c == 8:
        return D.tlv(0x88, D.oid_content(g["oid"]))
    if c == 4:
        return D.tlv(0xA4, D.enc_seq(ref_name(g["name"])))
    if c == 0:
        return D.tlv(0xA0, D.enc_oid(g["oid"]) + D.explicit(0, D.enc_utf8(g["s"])))
    raise AssertionError(c)


def ref_gns(gns):
    return b"".join(ref_gn(g) for g in gns)


def lib_gns(l, gns, cap=1024):
    """GeneralNames content through x509_general_names_add_*"""
    dst = Buf(cap, fill=0xA5)
    dl = c_size_t(0)
    for g in gns:
        c = g["c"]
        if c in (1, 2, 6):
            d = g["s"].encode("ascii")
        elif c == 7:
            d = bytes.fromhex(g["ip"])
        elif c == 4:
            d = D.enc_seq(lib_name(l, g["name"]))
        if c == 8:
            r = l.x509_general_names_add_registered_id(dst, byref(dl), cap, u32s(g["oid"]), len(g["oid"]))
        elif c == 0:
            v = D.enc_utf8(g["s"])
            r = l.x509_general_names_add_other_name(dst, byref(dl), cap, u32s(g["oid"]), len(g["oid"]), Buf.of(v), len(v))
        else:
            r = l.x509_general_names_add_general_name(dst, byref(dl), cap, c, Buf.of(d), len(d))
        need(r, "x509_general_names_add(choice %d)" % c, "general-names/add-refused")
    return dst.raw(dl.value)


# ---------------------------------------------------------------------------------------------------
# extensions: reference value and library call for every x509_exts_add_* / x509_crl_exts_add_* builder

def ref_ext(oid, crit, value):
    return D.enc_seq(*([D.enc_oid(oid)] + ([D.enc_bool(bool(crit))] if crit >= 0 else []) + [D.enc_octets(value)]))


def ref_policy_info(p):
    quals = []
    for q in p.get("quals", ()):
        if q["k"] == "cps":
            quals.append(D.enc_seq(D.enc_oid((1, 3, 6, 1, 5, 5, 7, 2, 1)), D.enc_ia5(q["uri"])))
        else:
            quals.append(D.enc_seq(D.enc_oid((1, 3, 6, 1, 5, 5, 7, 2, 2)), D.enc_seq(D.enc_utf8(q["text"]))))
    return D.enc_seq(*([D.enc_oid(p["oid"])] + ([D.enc_seq(*quals)] if quals else [])))


def ref_subtree(s):
    return D.enc_seq(*([ref_gn(s["base"])] + ([D.enc_int(s["min"], 0x80)] if s["min"] >= 0 else []) + ([D.enc_int(s["max"], 0x81)] if s["max"] >= 0 else [])))


def ref_dist_point(uri):
    """DistributionPoint with fullName = one URI: SEQUENCE { [0] { [0] { [6] uri } } }"""
    return D.enc_seq(D.tlv(0xA0, D.tlv(0xA0, D.tlv(0x86, uri))))


def ref_attribute(a):
    return D.enc_seq(D.enc_oid(a["oid"]), D.enc_set(*[D.enc_utf8(v) if a.get("utf8", True) else D.enc_printable(v) for v in a["vals"]]))


def ext_value(e, ctxkeys=None):
    """(oid, value DER) the extension specification `e` stands for (RFC 5280 section 4.2 / 5.2)"""
    k = e["k"]
    if k == "aki":
        keyid, serial, gns = bytes.fromhex(e["keyid"]), bytes.fromhex(e["serial"]), e["issuer"]
        v = D.enc_seq(*(([D.enc_octets(keyid, 0x80)] if keyid else []) + ([D.tlv(0xA1, ref_gns(gns))] if gns else []) +
                        ([D.enc_uint_bytes(serial, 0x82)] if serial else [])))
        return EXT_OID["aki"], v
    if k == "aki_default":
        pub = (int(e["x"], 16), int(e["y"], 16))
        return EXT_OID["aki"], D.enc_seq(D.enc_octets(M.sm3(b"\x04" + M.i2b(pub[0]) + M.i2b(pub[1])), 0x80))
    if k == "ski":
        return EXT_OID["ski"], D.enc_octets(bytes.fromhex(e["id"]))
    if k == "ski_ex":
        pub = (int(e["x"], 16), int(e["y"], 16))
        return EXT_OID["ski"], D.enc_octets(M.sm3(b"\x04" + M.i2b(pub[0]) + M.i2b(pub[1])))
    if k == "ku":
        return EXT_OID["ku"], D.enc_named_bits(e["bits"])
    if k == "cp":
        return EXT_OID["cp"], D.enc_seq(*[ref_policy_info(p) for p in e["policies"]])
    if k == "pm":
        return EXT_OID["pm"], D.enc_seq(*[D.enc_seq(D.enc_oid(a), D.enc_oid(b)) for a, b in e["maps"]])
    if k in ("san", "ian"):
        return EXT_OID[k], D.enc_seq(ref_gns(e["gns"]))
    if k == "sda":
        return EXT_OID["sda"], D.enc_seq(*[ref_attribute(a) for a in e["attrs"]])
    if k == "bc":
        return EXT_OID["bc"], D.enc_seq(*(([D.enc_bool(bool(e["ca"]))] if e["ca"] >= 0 else []) + ([D.enc_int(e["n"])] if e["n"] >= 0 else [])))
    if k == "nc":
        return EXT_OID["nc"], D.enc_seq(*(([D.tlv(0xA0, b"".join(ref_subtree(s) for s in e["permit"]))] if e["permit"] else []) +
                                         ([D.tlv(0xA1, b"".join(ref_subtree(s) for s in e["exclude"]))] if e["exclude"] else [])))
    if k == "pc":
        return EXT_OID["pc"], D.enc_seq(*(([D.enc_int(e["a"], 0x80)] if e["a"] >= 0 else []) + ([D.enc_int(e["b"], 0x81)] if e["b"] >= 0 else [])))
    if k == "eku":
        return EXT_OID["eku"], D.enc_seq(*[D.enc_oid(KP[n]) for n in e["kp"]])
    if k in ("cdp", "fcrl_uri"):
        # the supplied ldap URI belongs into the extension as a second DistributionPoint / GeneralName; the reference
        # states only what every reading agrees on (the http URI), the ldap URI is judged separately
        dps = [ref_dist_point(e["http"].encode("ascii"))]
        if e["ldap"]:
            dps.append(ref_dist_point(e["ldap"].encode("ascii")))      # one DistributionPoint per supplied URI
        return EXT_OID["cdp" if k == "cdp" else "fcrl"], D.enc_seq(*dps)
    if k == "iap":
        return EXT_OID["iap"], D.enc_int(e["n"])
    if k == "fcrl":
        return EXT_OID["fcrl"], D.enc_seq(*[ref_dist_point(u.encode("ascii")) for u in e["uris"]])
    if k == "aia":
        items = []
        if e["ca_issuers"]:
            items.append(D.enc_seq(D.enc_oid(OID_AD_CA_ISSUERS), D.tlv(0x86, e["ca_issuers"].encode("ascii"))))
        if e["ocsp"]:
            items.append(D.enc_seq(D.enc_oid(OID_AD_OCSP), D.tlv(0x86, e["ocsp"].encode("ascii"))))
        return EXT_OID["aia"], D.enc_seq(*items)
    if k == "seq":
        return EXT_OID[e["id"]], D.enc_seq(bytes.fromhex(e["d"]))
    if k in ("crlnum", "delta"):
        return EXT_OID[k], D.enc_int(e["n"])
    if k == "idp":
        items = []
        if e["uri"]:
            items.append(D.tlv(0xA0, D.tlv(0xA0, D.tlv(0x86, e["uri"].encode("ascii")))))
        for i, f in ((1, "user"), (2, "ca")):
            if e[f] >= 0:
                items.append(D.enc_bool(bool(e[f]), 0x80 | i))
        if e["reasons"] >= 0:
            items.append(D.enc_named_bits(e["reasons"], 0x83))
        for i, f in ((4, "indirect"), (5, "attr")):
            if e[f] >= 0:
                items.append(D.enc_bool(bool(e[f]), 0x80 | i))
        return EXT_OID["idp"], D.enc_seq(*items)
    raise AssertionError(k)


def ref_exts(specs):
    out = b""
    for e in specs:
        oid, v = ext_value(e)
        out += ref_ext(oid, e["crit"], v)
    return out


def _raw_d(e):
    """content octets the raw-`d` builders receive: the reference value without its outer SEQUENCE header"""
    return D.parse_one(ext_value(e)[1], recurse=False).content


def lib_exts(l, specs, crl=False, cap=8192):
    """Extensions content through the x509_exts_add_* (crl: x509_crl_exts_add_*) builders"""
    dst = Buf(cap, fill=0xA5)
    dl = c_size_t(0)
    A = (dst, byref(dl), cap)
    for e in specs:
        k, crit = e["k"], e["crit"]
        what = "x509_%sexts_add_%s(critical %d)" % ("crl_" if crl else "", k, crit)
        if k == "aki":
            keyid, serial = bytes.fromhex(e["keyid"]), bytes.fromhex(e["serial"])
            gns = lib_gns(l, e["issuer"]) if e["issuer"] else b""
            fn = l.x509_crl_exts_add_authority_key_identifier if crl else l.x509_exts_add_authority_key_identifier
            r = fn(*A, crit, Buf.of(keyid) if keyid else None, len(keyid), Buf.of(gns) if gns else None, len(gns), Buf.of(serial) if serial else None, len(serial))
        elif k == "aki_default":
            key = key_in(pub=(int(e["x"], 16), int(e["y"], 16)))
            r = (l.x509_crl_exts_add_default_authority_key_identifier if crl else l.x509_exts_add_default_authority_key_identifier)(*A, key)
        elif k == "ski":
            i = bytes.fromhex(e["id"])
            r = l.x509_exts_add_subject_key_identifier(*A, crit, Buf.of(i), len(i))
        elif k == "ski_ex":
            r = l.x509_exts_add_subject_key_identifier_ex(*A, crit, key_in(pub=(int(e["x"], 16), int(e["y"], 16))))
        elif k == "ku":
            r = l.x509_exts_add_key_usage(*A, crit, e["bits"])
        elif k in ("cp", "pm", "sda", "fcrl"):
            d = _raw_d(e)
            fn = {"cp": l.x509_exts_add_certificate_policies, "pm": l.x509_exts_add_policy_mappings, "sda": l.x509_exts_add_subject_directory_attributes,
                  "fcrl": l.x509_exts_add_freshest_crl}[k]
            r = fn(*A, crit, Buf.of(d), len(d))
        elif k in ("san", "ian"):
            d = lib_gns(l, e["gns"])
            if k == "san":
                r = l.x509_exts_add_subject_alt_name(*A, crit, Buf.of(d), len(d))
            else:
                r = (l.x509_crl_exts_add_issuer_alt_name if crl else l.x509_exts_add_issuer_alt_name)(*A, crit, Buf.of(d), len(d))
        elif k == "bc":
            r = l.x509_exts_add_basic_constraints(*A, crit, e["ca"], e["n"])
        elif k == "nc":
            pe = b"".join(ref_subtree(s) for s in e["permit"])
            ex = b"".join(ref_subtree(s) for s in e["exclude"])
            r = l.x509_exts_add_name_constraints(*A, crit, Buf.of(pe) if pe else None, len(pe), Buf.of(ex) if ex else None, len(ex))
        elif k == "pc":
            r = l.x509_exts_add_policy_constraints(*A, crit, e["a"], e["b"])
        elif k == "eku":
            ids = [l.x509_key_purpose_from_name(n.encode()) for n in e["kp"]]
            r = l.x509_exts_add_ext_key_usage(*A, crit, u32s(ids), len(ids))
        elif k in ("cdp", "fcrl_uri"):
            h, ld = e["http"].encode("ascii"), e["ldap"].encode("ascii")
            fn = l.x509_crl_exts_add_freshest_crl if k == "fcrl_uri" else l.x509_exts_add_crl_distribution_points
            r = fn(*A, crit, Buf.of(h), len(h), Buf.of(ld) if ld else None, len(ld))
        elif k == "iap":
            r = l.x509_exts_add_inhibit_any_policy(*A, crit, e["n"])
        elif k == "aia":
            a, b = e["ca_issuers"].encode("ascii"), e["ocsp"].encode("ascii")
            fn = l.x509_crl_exts_add_authority_info_acess if crl else l.x509_exts_add_authority_info_access
            r = fn(*A, crit, Buf.of(a) if a else None, len(a), Buf.of(b) if b else None, len(b))
        elif k == "seq":
            d = bytes.fromhex(e["d"])
            r = l.x509_exts_add_sequence(*A, l.x509_ext_id_from_name(EXT_LIBNAME[e["id"]].encode()), crit, Buf.of(d), len(d))
        elif k == "crlnum":
            r = l.x509_crl_exts_add_crl_number(*A, crit, e["n"])
        elif k == "delta":
            r = l.x509_crl_exts_add_delta_crl_indicator(*A, crit, e["n"])
        elif k == "idp":
            u = e["uri"].encode("ascii")
            r = l.x509_crl_exts_add_issuing_distribution_point(*A, crit, Buf.of(u) if u else None, len(u), e["user"], e["ca"], e["reasons"], e["indirect"], e["attr"])
        else:
            raise AssertionError(k)
        need(r, what, "ext/%s/add-refused" % k)
    return dst.raw(dl.value)


# ---------------------------------------------------------------------------------------------------
# reference encodings of the signed parts

def ref_time(t):
    return D.enc_utctime(t) if t < Y2050 else D.enc_gentime(t)


def ref_spki(pub):
    return D.enc_seq(D.enc_seq(D.enc_oid(OID_EC_PUBKEY), D.enc_oid(OID_SM2)), D.enc_bitstring(b"\x04" + M.i2b(pub[0]) + M.i2b(pub[1])))


def ref_tbs_cert(version, serial, issuer, nb, na, subject, pub, iuid, suid, exts):
    items = []
    if version >= 0:
        items.append(D.explicit(0, D.enc_int(version)))
    items += [D.enc_uint_bytes(serial), ALG_SM2SIGN, D.enc_seq(issuer), D.enc_seq(ref_time(nb), ref_time(na)), D.enc_seq(subject), ref_spki(pub)]
    if iuid:
        items.append(D.enc_bitstring(iuid, tag=0x81))
    if suid:
        items.append(D.enc_bitstring(suid, tag=0x82))
    if exts:
        items.append(D.explicit(3, D.enc_seq(exts)))
    return D.enc_seq(*items)


def ref_req_info(subject, pub, attrs):
    return D.enc_seq(D.enc_int(0), D.enc_seq(subject), ref_spki(pub), D.tlv(0xA0, attrs))


def ref_entry_exts(en):
    out = b""
    raw = en["via"] == "raw"          # x509_revoked_cert_to_der_ex leaves criticality out
    if en["reason"] >= 0:
        out += ref_ext(EXT_OID["reason"], en.get("rcrit", -1) if raw else -1, D.enc_int(en["reason"], D.ENUMERATED))
    if en["invdate"] >= 0:
        out += ref_ext(EXT_OID["invdate"], en.get("dcrit", -1) if raw else -1, D.enc_gentime(en["invdate"]))
    if en["issuer"]:
        out += ref_ext(EXT_OID["certissuer"], 1, D.enc_seq(ref_gns(en["issuer"])))
    return out


def ref_revoked(en):
    """RevokedCertificate as the library writes it (revocationDate always as GeneralizedTime, see the note in C15)"""
    ex = ref_entry_exts(en)
    return D.enc_seq(*([D.enc_uint_bytes(bytes.fromhex(en["serial"])), D.enc_gentime(en["date"])] + ([D.enc_seq(ex)] if ex else [])))


def ref_tbs_crl(version, issuer, this_update, next_update, revoked, exts):
    items = []
    if version >= 0:
        items.append(D.enc_int(version))
    items += [ALG_SM2SIGN, D.enc_seq(issuer), ref_time(this_update)]
    if next_update >= 0:
        items.append(ref_time(next_update))
    if revoked:
        items.append(D.enc_seq(revoked))
    if exts:
        items.append(D.explicit(0, D.enc_seq(exts)))
    return D.enc_seq(*items)


# ---------------------------------------------------------------------------------------------------
# issuing

def _signed(l, seed, fn, what, key):
    """sign under scripted entropy: the object is a function of the fields and `seed`"""
    sh = shim()
    sh.stream(seed)
    try:
        return emit(fn, what, key)
    finally:
        sh.reset()


def sm2sign_oid(l):
    return l.x509_signature_algor_from_name(b"sm2sign-with-sm3")


def issue_cert(l, version, serial, issuer, nb, na, subject, pub, iuid, suid, exts, sign_d, signer_id, seed):
    skey = key_in(d=sign_d)
    pkey = key_in(pub=pub)
    sb, ib, ub_, ivb, svb, eb = Buf.of(serial), Buf.of(issuer), Buf.of(subject), Buf.of(iuid), Buf.of(suid), Buf.of(exts)
    idb, idlen = id_args(signer_id)
    alg = sm2sign_oid(l)
    return _signed(l, seed, lambda o, n: l.x509_cert_sign_to_der(
        version, sb, len(serial), alg, ib, len(issuer), nb, na, ub_, len(subject), pkey,
        ivb if iuid else None, len(iuid), svb if suid else None, len(suid), eb if exts else None, len(exts),
        skey, idb, idlen, o, n), "x509_cert_sign_to_der", "cert/sign-refused")


def issue_req(l, subject, pub, attrs, sign_d, signer_id, seed):
    skey, pkey = key_in(d=sign_d), key_in(pub=pub)
    sb, ab = Buf.of(subject), Buf.of(attrs)
    idb, idlen = id_args(signer_id)
    alg = sm2sign_oid(l)
    return _signed(l, seed, lambda o, n: l.x509_req_sign_to_der(0, sb, len(subject), pkey, ab, len(attrs), alg, skey, idb, idlen, o, n),
                   "x509_req_sign_to_der", "req/sign-refused")


def lib_revoked(l, en):
    """one RevokedCertificate through x509_revoked_cert_to_der[_ex] and the entry-extension builders"""
    serial = bytes.fromhex(en["serial"])
    sb = Buf.of(serial)
    gns = lib_gns(l, en["issuer"]) if en["issuer"] else b""
    gb = Buf.of(gns)
    if en["via"] == "ex":
        return emit(lambda o, n: l.x509_revoked_cert_to_der_ex(sb, len(serial), en["date"], en["reason"], en["invdate"], gb if gns else None, len(gns), o, n),
                    "x509_revoked_cert_to_der_ex", "crl/revoked/encode-refused")
    ex = b""
    if en["reason"] >= 0:
        ex += emit(lambda o, n: l.x509_crl_reason_ext_to_der(en.get("rcrit", -1), en["reason"], o, n), "x509_crl_reason_ext_to_der", "crl/entry-ext/encode-refused")
    if en["invdate"] >= 0:
        ex += emit(lambda o, n: l.x509_invalidity_date_ext_to_der(en.get("dcrit", -1), en["invdate"], o, n), "x509_invalidity_date_ext_to_der", "crl/entry-ext/encode-refused")
    if gns:
        ex += emit(lambda o, n: l.x509_cert_issuer_ext_to_der(1, gb, len(gns), o, n), "x509_cert_issuer_ext_to_der", "crl/entry-ext/encode-refused")
    eb = Buf.of(ex)
    return emit(lambda o, n: l.x509_revoked_cert_to_der(sb, len(serial), en["date"], eb if ex else None, len(ex), o, n),
                "x509_revoked_cert_to_der", "crl/revoked/encode-refused")


def issue_crl(l, version, issuer, this_update, next_update, revoked, exts, sign_d, signer_id, seed):
    skey = key_in(d=sign_d)
    ib, rb, eb = Buf.of(issuer), Buf.of(revoked), Buf.of(exts)
    idb, idlen = id_args(signer_id)
    alg = sm2sign_oid(l)
    return _signed(l, seed, lambda o, n: l.x509_crl_sign_to_der(version, alg, ib, len(issuer), this_update, next_update,
                                                                 rb if revoked else None, len(revoked), eb if exts else None, len(exts),
                                                                 skey, idb, idlen, o, n), "x509_crl_sign_to_der", "crl/sign-refused")


# ---------------------------------------------------------------------------------------------------
# reading back with the library

def key_point(kb):
    aff, ok = pt_get(kb)
    return aff if ok else ("malformed", aff)


def cert_details(l, der):
    cb = Buf.of(der)
    ver, ialg, oalg = c_int(-99), c_int(-99), c_int(-99)
    nb, na = c_long(-99), c_long(-99)
    ser, iss, sub, iu, su, ex, sig = [outp() for _ in range(7)]
    key = Buf(sizeof("SM2_KEY"), fill=0)
    r = l.x509_cert_get_details(cb, len(der), byref(ver), byref(ser[0]), byref(ser[1]), byref(ialg), byref(iss[0]), byref(iss[1]),
                                byref(nb), byref(na), byref(sub[0]), byref(sub[1]), key, byref(iu[0]), byref(iu[1]), byref(su[0]), byref(su[1]),
                                byref(ex[0]), byref(ex[1]), byref(oalg), byref(sig[0]), byref(sig[1]))
    if r != 1:
        return r, None
    return r, dict(version=ver.value, serial=rd(*ser), inner_alg=ialg.value, issuer=rd(*iss), not_before=nb.value, not_after=na.value,
                   subject=rd(*sub), pub=key_point(key), iuid=rd(*iu), suid=rd(*su), exts=rd(*ex), outer_alg=oalg.value, sig=rd(*sig), _keep=cb)


def req_details(l, der):
    cb = Buf.of(der)
    ver, alg = c_int(-99), c_int(-99)
    sub, at, sig = outp(), outp(), outp()
    key = Buf(sizeof("SM2_KEY"), fill=0)
    r = l.x509_req_get_details(cb, len(der), byref(ver), byref(sub[0]), byref(sub[1]), key, byref(at[0]), byref(at[1]), byref(alg), byref(sig[0]), byref(sig[1]))
    if r != 1:
        return r, None
    return r, dict(version=ver.value, subject=rd(*sub), pub=key_point(key), attrs=rd(*at), attrs_present=bool(at[0].value), alg=alg.value, sig=rd(*sig))


def crl_details(l, der):
    cb = Buf.of(der)
    ver, ialg, oalg = c_int(-99), c_int(-99), c_int(-99)
    tu, nu = c_long(-99), c_long(-99)
    iss, rev, ex, sig = outp(), outp(), outp(), outp()
    r = l.x509_crl_get_details(cb, len(der), byref(ver), byref(ialg), byref(iss[0]), byref(iss[1]), byref(tu), byref(nu),
                               byref(rev[0]), byref(rev[1]), byref(ex[0]), byref(ex[1]), byref(oalg), byref(sig[0]), byref(sig[1]))
    if r != 1:
        return r, None
    return r, dict(version=ver.value, inner_alg=ialg.value, issuer=rd(*iss), this_update=tu.value, next_update=nu.value, revoked=rd(*rev),
                   exts=rd(*ex), outer_alg=oalg.value, sig=rd(*sig))


def lib_revoked_entries(l, revoked):
    """iterate x509_revoked_cert_from_der over RevokedCertificates content -> [(serial, date, reason, invdate, issuer gns)] or None"""
    out = []
    b = Buf.of(revoked)
    p, n = c_void_p(b.ptr), c_size_t(len(revoked))
    while n.value:
        ser, ex = outp(), outp()
        date = c_long(-99)
        if l.x509_revoked_cert_from_der(byref(ser[0]), byref(ser[1]), byref(date), byref(ex[0]), byref(ex[1]), byref(p), byref(n)) != 1:
            return None
        reason, inv, ci = c_int(-1), c_long(-1), outp()
        exb = rd(*ex)
        if exb:
            xb = Buf.of(exb)
            if l.x509_crl_entry_exts_get(xb, len(exb), byref(reason), byref(inv), byref(ci[0]), byref(ci[1])) != 1:
                return None
            ci_b = rd(*ci)
            del xb
        else:
            ci_b = b""
        out.append((rd(*ser), date.value, reason.value, inv.value, ci_b, exb))
    return out


def crl_find(l, der, serial):
    cb, sb = Buf.of(der), Buf.of(serial)
    date = c_long(-99)
    ex = outp()
    r = l.x509_crl_find_revoked_cert_by_serial_number(cb, len(der), sb, len(serial), byref(date), byref(ex[0]), byref(ex[1]))
    return r, date.value, rd(*ex)


def exts_get(l, exts, kind):
    """x509_exts_get_ext_by_oid -> (ret, critical, value)"""
    eb = Buf.of(exts)
    crit = c_int(-99)
    v = outp()
    r = l.x509_exts_get_ext_by_oid(eb, len(exts), l.x509_ext_id_from_name(EXT_LIBNAME[kind].encode()), byref(crit), byref(v[0]), byref(v[1]))
    return r, crit.value, rd(*v)


def lib_ext_fields(l, e, val):
    """decode an extension value with the library's own *_from_der -> (fields as decoded, fields as supplied) or None if
    no dedicated decoder is driven for this kind"""
    k = e["k"]
    vb = Buf.of(val)
    p, n = c_void_p(vb.ptr), c_size_t(len(val))
    P = (byref(p), byref(n))
    if k == "bc":
        a, b = c_int(-9), c_int(-9)
        r = l.x509_basic_constraints_from_der(byref(a), byref(b), *P)
        return (r, n.value, a.value, b.value), (1, 0, e["ca"], e["n"])
    if k == "pc":
        a, b = c_int(-9), c_int(-9)
        r = l.x509_policy_constraints_from_der(byref(a), byref(b), *P)
        return (r, n.value, a.value, b.value), (1, 0, e["a"], e["b"])
    if k == "ku":
        a = c_int(-9)
        r = l.asn1_bits_from_der_ex(3, byref(a), *P)
        return (r, n.value, a.value), (1, 0, e["bits"])
    if k in ("iap", "crlnum", "delta"):
        a = c_int(-9)
        r = l.asn1_int_from_der_ex(2, byref(a), *P)
        return (r, n.value, a.value), (1, 0, e["n"])
    if k == "ski":
        d = outp()
        r = l.asn1_type_from_der(4, byref(d[0]), byref(d[1]), *P)
        return (r, n.value, rd(*d)), (1, 0, bytes.fromhex(e["id"]))
    if k == "eku":
        ob = Buf(4 * 7, fill=0xA5)
        cnt = c_size_t(0)
        r = l.x509_ext_key_usage_from_der(ob, byref(cnt), 7, *P)
        got = [int.from_bytes(ob.raw(4, 4 * j), "little") for j in range(min(cnt.value, 7))]
        return (r, n.value, got), (1, 0, [l.x509_key_purpose_from_name(x.encode()) for x in e["kp"]])
    if k == "aki":
        a, b, c = outp(), outp(), outp()
        r = l.x509_authority_key_identifier_from_der(byref(a[0]), byref(a[1]), byref(b[0]), byref(b[1]), byref(c[0]), byref(c[1]), *P)
        serial = bytes.fromhex(e["serial"])
        return (r, n.value, rd(*a), rd(*b), rd(*c)), (1, 0, bytes.fromhex(e["keyid"]), ref_gns(e["issuer"]), (serial.lstrip(b"\0") or b"\0") if serial else b"")
    if k == "aia":
        a, b = outp(), outp()
        r = l.x509_authority_info_access_from_der(byref(a[0]), byref(a[1]), byref(b[0]), byref(b[1]), *P)
        return (r, n.value, rd(*a), rd(*b)), (1, 0, e["ca_issuers"].encode(), e["ocsp"].encode())
    if k in ("cdp", "fcrl_uri"):
        u, ci = outp(), outp()
        reasons = c_int(-9)
        r = l.x509_uri_as_distribution_points_from_der(byref(u[0]), byref(u[1]), byref(reasons), byref(ci[0]), byref(ci[1]), *P)
        return (r, n.value, rd(*u), reasons.value, rd(*ci)), (1, 0, e["http"].encode(), -1, b"")
    return None


# ---------------------------------------------------------------------------------------------------
# verification entry points

def signed_verify(l, der, pub, signer_id):
    """x509_signed_verify under the public key `pub` (affine) and signer ID"""
    return l.x509_signed_verify(Buf.of(der), len(der), key_in(pub=pub), Buf.of(signer_id), len(signer_id))


def id_args(signer_id):
    """(pointer, length) for a signer ID; None = NULL pointer (no Z value), b"" = a valid pointer with length 0"""
    if signer_id is None:
        return None, 0
    return Buf.of(signer_id if signer_id else b"\0"), len(signer_id)


def id_text(signer_id):
    return "NULL" if signer_id is None else "(empty, length 0)" if not signer_id else signer_id.hex()


class Verifier:
    """x509_signed_verify with key and ID blocks allocated once (bit-flip loops)"""

    def __init__(self, l, pub, signer_id, lam=1):
        self.l = l
        self.key = key_in(pub=pub)
        if lam != 1:
            self.key.write(pt_in(pub, lam).raw(), 0)
        self.id, self.idlen = id_args(signer_id)

    def __call__(self, der):
        return self.l.x509_signed_verify(Buf.of(der), len(der), self.key, self.id, self.idlen)


def verify_by_ca_cert(l, fn, der, cacert, signer_id):
    idb, idlen = id_args(signer_id)
    return getattr(l, fn)(Buf.of(der), len(der), Buf.of(cacert), len(cacert), idb, idlen)


def req_verify(l, der, signer_id):
    idb, idlen = id_args(signer_id)
    return l.x509_req_verify(Buf.of(der), len(der), idb, idlen)


# ---------------------------------------------------------------------------------------------------
# reading back without the library (reference TLV parser)

class Parsed:
    pass


def parse_signed(der):
    """-> Parsed(root, tbs, alg, sig nodes; sig_rs) for Certificate / CertificationRequest / CertificateList; raises DERError"""
    root = D.parse_one(der)
    if root.tag != 0x30 or len(root.children) != 3:
        raise D.DERError("not SEQUENCE { tbs, alg, sig }")
    o = Parsed()
    o.root, (o.tbs, o.alg, o.sig) = root, root.children
    if o.tbs.tag != 0x30 or o.alg.tag != 0x30 or o.sig.tag != 0x03:
        raise D.DERError("unexpected tags")
    data, nbits = o.sig.value()
    if nbits % 8:
        raise D.DERError("signature bits")
    o.sig_bytes = data
    o.sig_rs = SD.parse_sig(data)
    return o


def model_verify(der, pub, signer_id):
    """the Python SM2 model's verdict on the object's signature over the exact TBS bytes"""
    o = parse_signed(der)
    if o.sig_rs is None or o.alg.raw != ALG_SM2SIGN:
        return False
    # no signer ID (NULL): the digest is SM3 over the TBS bytes alone, without the Z value
    e = M.sm3(bytes(o.tbs.raw)) if signer_id is None else M.digest_for_sign(pub, signer_id, o.tbs.raw)
    return M.verify_rs(pub, e, *o.sig_rs)


def _time_value(n):
    if n.tag not in (D.UTCTIME, D.GENTIME):
        raise D.DERError("not a Time")
    return n.value()


def parse_exts(seq_node):
    out = []
    for x in seq_node.children:
        ch = x.children
        oid = ch[0].value()
        crit = -1
        i = 1
        if ch[i].tag == D.BOOLEAN:
            crit = 1 if ch[i].value() else 0
            i += 1
        out.append((oid, crit, ch[i].value()))
        if i + 1 != len(ch):
            raise D.DERError("trailing in Extension")
    return out


def parse_cert(der):
    o = parse_signed(der)
    ch = list(o.tbs.children)
    f = {"version": -1, "iuid": b"", "suid": b"", "exts": None, "exts_raw": b""}
    if ch and ch[0].tag == 0xA0:
        f["version"] = ch[0].children[0].value()
        ch = ch[1:]
    f["serial"] = ch[0].value()
    f["serial_content"] = ch[0].content
    f["inner_alg"] = ch[1].raw
    f["inner_alg_node"] = ch[1]
    f["issuer"] = ch[2].content
    f["not_before"], f["not_after"] = _time_value(ch[3].children[0]), _time_value(ch[3].children[1])
    f["time_tags"] = (ch[3].children[0].tag, ch[3].children[1].tag)
    f["subject"] = ch[4].content
    f["spki"] = ch[5].raw
    for x in ch[6:]:
        if x.tag == 0x81:
            f["iuid"] = D.dec_bitstring(x.content)[0]
        elif x.tag == 0x82:
            f["suid"] = D.dec_bitstring(x.content)[0]
        elif x.tag == 0xA3:
            f["exts"] = parse_exts(x.children[0])
            f["exts_raw"] = x.children[0].content
        else:
            raise D.DERError("unexpected TBS member %02x" % x.tag)
    f["outer_alg"] = o.alg.raw
    f["sig"] = o.sig_bytes
    return o, f


def parse_req(der):
    o = parse_signed(der)
    ch = o.tbs.children
    f = {"version": ch[0].value(), "subject": ch[1].content, "spki": ch[2].raw, "attrs": ch[3].content if len(ch) > 3 else None,
         "outer_alg": o.alg.raw, "sig": o.sig_bytes}
    if len(ch) > 4 or (len(ch) > 3 and ch[3].tag != 0xA0):
        raise D.DERError("unexpected CertificationRequestInfo member")
    return o, f


def parse_crl(der):
    o = parse_signed(der)
    ch = list(o.tbs.children)
    f = {"version": -1, "next_update": -1, "revoked": [], "revoked_raw": b"", "exts": None, "exts_raw": b""}
    if ch[0].tag == D.INTEGER:
        f["version"] = ch[0].value()
        ch = ch[1:]
    f["inner_alg"] = ch[0].raw
    f["inner_alg_node"] = ch[0]
    f["issuer"] = ch[1].content
    f["this_update"] = _time_value(ch[2])
    rest = ch[3:]
    if rest and rest[0].tag in (D.UTCTIME, D.GENTIME):
        f["next_update"] = _time_value(rest[0])
        rest = rest[1:]
    if rest and rest[0].tag == 0x30:
        f["revoked_raw"] = rest[0].content
        for en in rest[0].children:
            e = en.children
            f["revoked"].append({"serial": e[0].value(), "serial_content": e[0].content, "date": _time_value(e[1]), "date_tag": e[1].tag,
                                 "exts": parse_exts(e[2]) if len(e) > 2 else None, "exts_raw": e[2].content if len(e) > 2 else b""})
        rest = rest[1:]
    if rest and rest[0].tag == 0xA0:
        f["exts"] = parse_exts(rest[0].children[0])
        f["exts_raw"] = rest[0].children[0].content
        rest = rest[1:]
    if rest:
        raise D.DERError("unexpected TBSCertList member")
    f["outer_alg"] = o.alg.raw
    f["sig"] = o.sig_bytes
    return o, f


# ---------------------------------------------------------------------------------------------------
# bit-flip neighbourhoods

def strata(der):
    """{stratum: [absolute bit indices]} of a signed object: outer header, TBS header, inner AlgorithmIdentifier, the rest of
    the TBS, outer AlgorithmIdentifier, signature BIT STRING"""
    o = parse_signed(der)
    inner = None
    for c in o.tbs.children:
        if c.raw == ALG_SM2SIGN:
            inner = c
            break

    def bits(a, b):
        return list(range(8 * a, 8 * b))
    s = {"outer-header": bits(o.root.off, o.root.coff), "tbs-header": bits(o.tbs.off, o.tbs.coff),
         "outer-alg": bits(o.alg.off, o.alg.end), "signature": bits(o.sig.off, o.sig.end)}
    if inner is not None:
        s["inner-alg"] = bits(inner.off, inner.end)
        s["tbs-body"] = bits(o.tbs.coff, inner.off) + bits(inner.end, o.tbs.end)
    else:
        s["tbs-body"] = bits(o.tbs.coff, o.tbs.end)
    return s


def flip(der, bit):
    b = bytearray(der)
    b[bit >> 3] ^= 0x80 >> (bit & 7)
    return bytes(b)
