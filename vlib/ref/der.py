"""Reference DER codec (X.690) on Python values, a TLV tree parser with offsets, and mutators.

Written from X.680/X.690; shares nothing with the library.  Three layers:

1. encoders   Python value -> DER bytes
     enc_len(n) tlv(tag, content) enc_bool(v) enc_int(v) enc_uint_bytes(b) enc_bitstring(data, nbits)
     enc_named_bits(flags) enc_octets(b) enc_null() enc_oid(arcs) enc_utf8(s) enc_printable(s) enc_ia5(s)
     enc_utctime(ts) enc_gentime(ts) enc_seq(*items) enc_set(*items) enc_set_of(*items) explicit(n, inner)
     implicit(n, inner_tlv)            every enc_* takes tag=... to override the identifier octet
2. parser     parse(buf, off=0, strict=True) -> Node  (tree with absolute offsets; strict = DER only)
     parse_all(buf) -> [Node]; Node.value() -> Python value of a universal primitive (strict);
     Node.child(i), Node.find(path), Node.walk(); is_der(buf); replace(buf, node, new_tlv) re-computes the
     lengths of all ancestors, so one field can be altered inside an arbitrarily nested blob.
3. mutators   mutants(buf) -> [(label, class, bytes)]  every result differs from buf and is NOT the canonical DER
     encoding of the same abstract value as an unsigned/DER object: non-minimal lengths, padded or negative
     INTEGERs, BOOLEAN not 00/FF, indefinite lengths, wrong tags, trailing bytes, truncations, ...

Values: BOOLEAN bool, INTEGER int, BIT STRING (bytes, nbits), OCTET STRING bytes, NULL None, OID tuple of ints,
strings str, times int (seconds since 1970-01-01T00:00:00Z).
"""
import datetime

# universal tag numbers
BOOLEAN, INTEGER, BIT_STRING, OCTET_STRING, NULL, OID, ENUMERATED, UTF8 = 1, 2, 3, 4, 5, 6, 10, 12
PRINTABLE, IA5, UTCTIME, GENTIME, SEQUENCE, SET = 19, 22, 23, 24, 0x30, 0x31
PRINTABLE_ALPHABET = "ABCDEFGHIJKLMNOPQRSTUVWXYZabcdefghijklmnopqrstuvwxyz0123456789 '()+,-./:=?"


class DERError(ValueError):
    pass


def IMPLICIT(i):
    return 0x80 | i


def EXPLICIT(i):
    return 0xA0 | i


# ---------------------------------------------------------------------------------------------------
# encoders

def enc_len(n):
    if n < 0:
        raise DERError("negative length")
    if n < 0x80:
        return bytes([n])
    b = n.to_bytes((n.bit_length() + 7) // 8, "big")
    return bytes([0x80 | len(b)]) + b


def tlv(tag, content):
    return bytes([tag]) + enc_len(len(content)) + bytes(content)


def enc_bool(v, tag=BOOLEAN):
    return tlv(tag, b"\xff" if v else b"\x00")


def int_content(v):
    """minimal two's complement content octets of a Python int"""
    n = 1
    while True:
        try:
            return v.to_bytes(n, "big", signed=True)
        except OverflowError:
            n += 1


def enc_int(v, tag=INTEGER):
    return tlv(tag, int_content(v))


def enc_uint_bytes(b, tag=INTEGER):
    """INTEGER whose magnitude is the big-endian byte string b (leading zeros carry no information)"""
    return enc_int(int.from_bytes(b, "big"), tag)


def enc_bitstring(data, nbits=None, tag=BIT_STRING):
    """BIT STRING holding the first nbits bits of data (default: all of data); unused bits are sent as given in
    data (DER wants them zero: callers that need canonical output pass clean data, see clean_bits)."""
    data = bytes(data)
    if nbits is None:
        nbits = 8 * len(data)
    nbytes = (nbits + 7) // 8
    if nbytes > len(data):
        raise DERError("not enough data for nbits")
    return tlv(tag, bytes([nbytes * 8 - nbits]) + data[:nbytes])


def clean_bits(data, nbits):
    nbytes = (nbits + 7) // 8
    d = bytearray(data[:nbytes])
    if nbits % 8:
        d[-1] &= (0xFF << (8 - nbits % 8)) & 0xFF
    return bytes(d)


def enc_named_bits(flags, tag=BIT_STRING):
    """Named-bit-list BIT STRING: bit i of `flags` is named bit i (bit 0 is the first = most significant bit of
    the first octet); trailing zero bits are removed as DER requires (flags == 0 -> empty bit string)."""
    nbits = flags.bit_length()
    data = bytearray((nbits + 7) // 8)
    for i in range(nbits):
        if (flags >> i) & 1:
            data[i // 8] |= 0x80 >> (i % 8)
    return enc_bitstring(bytes(data), nbits, tag)


def enc_octets(b, tag=OCTET_STRING):
    return tlv(tag, b)


def enc_null(tag=NULL):
    return tlv(tag, b"")


def base128(v):
    out = [v & 0x7F]
    v >>= 7
    while v:
        out.append(0x80 | (v & 0x7F))
        v >>= 7
    return bytes(reversed(out))


def oid_content(arcs):
    arcs = list(arcs)
    if len(arcs) < 2 or arcs[0] > 2 or arcs[0] < 0 or (arcs[0] < 2 and arcs[1] >= 40) or min(arcs) < 0:
        raise DERError("bad OID arcs %r" % (arcs,))
    return base128(arcs[0] * 40 + arcs[1]) + b"".join(base128(a) for a in arcs[2:])


def enc_oid(arcs, tag=OID):
    return tlv(tag, oid_content(arcs))


def enc_utf8(s, tag=UTF8):
    return tlv(tag, s.encode("utf-8") if isinstance(s, str) else bytes(s))


def is_printable(s):
    return all(c in PRINTABLE_ALPHABET for c in s)


def enc_printable(s, tag=PRINTABLE):
    if not is_printable(s):
        raise DERError("not a PrintableString")
    return tlv(tag, s.encode("ascii"))


def enc_ia5(s, tag=IA5):
    b = s.encode("latin-1") if isinstance(s, str) else bytes(s)
    if any(c > 0x7F for c in b):
        raise DERError("not an IA5String")
    return tlv(tag, b)


_EPOCH = datetime.datetime(1970, 1, 1)
MAX_TIME = 253402300799  # 9999-12-31T23:59:59Z


def _dt(ts):
    if not 0 <= ts <= MAX_TIME:
        raise DERError("time out of range")
    return _EPOCH + datetime.timedelta(seconds=ts)


def utctime_str(ts):
    """RFC 5280 4.1.2.5.1: YY >= 50 means 19YY, YY < 50 means 20YY, so 1950..2049 are representable"""
    d = _dt(ts)
    if not 1950 <= d.year <= 2049:
        raise DERError("year %d not representable as UTCTime" % d.year)
    return d.strftime("%y%m%d%H%M%SZ")


def gentime_str(ts):
    d = _dt(ts)
    return "%04d" % d.year + d.strftime("%m%d%H%M%SZ")


def enc_utctime(ts, tag=UTCTIME):
    return tlv(tag, utctime_str(ts).encode())


def enc_gentime(ts, tag=GENTIME):
    return tlv(tag, gentime_str(ts).encode())


def enc_seq(*items, tag=SEQUENCE):
    return tlv(tag, b"".join(items))


def enc_set(*items, tag=SET):
    """SET with the members in the given order"""
    return tlv(tag, b"".join(items))


def enc_set_of(*items, tag=SET):
    """SET OF: DER sorts the encodings"""
    return tlv(tag, b"".join(sorted(items)))


def explicit(n, inner):
    """[n] EXPLICIT: constructed context tag around a complete TLV (or several)"""
    return tlv(EXPLICIT(n), inner)


def implicit(n, inner_tlv):
    """[n] IMPLICIT: replace the identifier octet, keep the constructed bit"""
    return bytes([0x80 | (inner_tlv[0] & 0x20) | n]) + bytes(inner_tlv[1:])


# ---------------------------------------------------------------------------------------------------
# parser

class Node:
    """One TLV.  off: offset of the identifier octet in the parsed buffer; hlen: identifier+length octets;
    clen: content length; coff = off+hlen; end = coff+clen.  children: list of Nodes for constructed types."""
    __slots__ = ("buf", "tag", "off", "hlen", "clen", "children", "parent", "indefinite", "minimal_len")

    def __init__(self, buf, tag, off, hlen, clen):
        self.buf, self.tag, self.off, self.hlen, self.clen = buf, tag, off, hlen, clen
        self.children, self.parent, self.indefinite, self.minimal_len = None, None, False, True

    cls = property(lambda s: s.tag & 0xC0)
    constructed = property(lambda s: bool(s.tag & 0x20))
    number = property(lambda s: s.tag & 0x1F)
    coff = property(lambda s: s.off + s.hlen)
    end = property(lambda s: s.off + s.hlen + s.clen)
    content = property(lambda s: bytes(s.buf[s.off + s.hlen:s.off + s.hlen + s.clen]))
    raw = property(lambda s: bytes(s.buf[s.off:s.off + s.hlen + s.clen]))
    header = property(lambda s: bytes(s.buf[s.off:s.off + s.hlen]))

    def child(self, i):
        return self.children[i]

    def find(self, *path):
        n = self
        for i in path:
            n = n.children[i]
        return n

    def walk(self):
        yield self
        for c in self.children or ():
            for x in c.walk():
                yield x

    def path(self):
        p, n = [], self
        while n.parent is not None:
            p.append(n.parent.children.index(n))
            n = n.parent
        return tuple(reversed(p))

    def value(self):
        """Python value of a universal primitive / list of child values for SEQUENCE, SET (strict DER)."""
        t, c = self.tag, self.content
        if t == BOOLEAN:
            return dec_bool(c)
        if t in (INTEGER, ENUMERATED):
            return dec_int(c)
        if t == BIT_STRING:
            return dec_bitstring(c)
        if t == OCTET_STRING:
            return c
        if t == NULL:
            if c:
                raise DERError("NULL with content")
            return None
        if t == OID:
            return dec_oid(c)
        if t == UTF8:
            return c.decode("utf-8")
        if t == PRINTABLE:
            s = c.decode("ascii")
            if not is_printable(s):
                raise DERError("bad PrintableString")
            return s
        if t == IA5:
            return c.decode("ascii")
        if t == UTCTIME:
            return dec_utctime(c)
        if t == GENTIME:
            return dec_gentime(c)
        if self.constructed:
            return [ch.value() if ch.cls == 0 else ch for ch in self.children]
        raise DERError("no value decoder for tag %02x" % t)

    def __repr__(self):
        return "<Node tag=%02x off=%d hlen=%d clen=%d%s>" % (self.tag, self.off, self.hlen, self.clen,
                                                          " [%d]" % len(self.children) if self.children is not None else "")


def read_header(buf, off=0, strict=True, limit=None):
    """-> (tag, hlen, clen, indefinite, minimal).  strict: DER (definite, minimal); else BER lengths accepted."""
    limit = len(buf) if limit is None else limit
    if off + 2 > limit:
        raise DERError("truncated header at %d" % off)
    tag = buf[off]
    if tag & 0x1F == 0x1F:
        raise DERError("high tag number form not supported")
    l0 = buf[off + 1]
    if l0 < 0x80:
        return tag, 2, l0, False, True
    k = l0 & 0x7F
    if k == 0:
        if strict:
            raise DERError("indefinite length")
        return tag, 2, None, True, False
    if off + 2 + k > limit:
        raise DERError("truncated length")
    n = int.from_bytes(buf[off + 2:off + 2 + k], "big")
    minimal = buf[off + 2] != 0 and n >= 0x80
    if strict and (not minimal or k > 8):
        raise DERError("non-minimal length")
    return tag, 2 + k, n, False, minimal


def parse(buf, off=0, strict=True, limit=None, recurse=True, _parent=None):
    """Parse one TLV at `off`.  Constructed types are parsed recursively (children carry absolute offsets)."""
    buf = bytes(buf)
    limit = len(buf) if limit is None else limit
    tag, hlen, clen, indef, minimal = read_header(buf, off, strict, limit)
    if indef:
        if not tag & 0x20:
            raise DERError("indefinite length on primitive")
        node = Node(buf, tag, off, hlen, 0)
        node.indefinite, node.minimal_len, node.parent, node.children = True, False, _parent, []
        p = off + hlen
        while True:
            if p + 2 > limit:
                raise DERError("missing end-of-contents")
            if buf[p] == 0 and buf[p + 1] == 0:
                break
            ch = parse(buf, p, strict, limit, recurse, node)
            node.children.append(ch)
            p = ch.end + (2 if ch.indefinite else 0)
        node.clen = p - (off + hlen)
        return node
    if off + hlen + clen > limit:
        raise DERError("content exceeds buffer (tag %02x at %d: %d > %d)" % (tag, off, clen, limit - off - hlen))
    node = Node(buf, tag, off, hlen, clen)
    node.minimal_len, node.parent = minimal, _parent
    if tag & 0x20 and recurse:
        node.children = []
        p, e = off + hlen, off + hlen + clen
        while p < e:
            ch = parse(buf, p, strict, e, recurse, node)
            node.children.append(ch)
            p = ch.end + (2 if ch.indefinite else 0)
    return node


def parse_all(buf, strict=True):
    """Sequence of TLVs filling buf exactly"""
    out, p = [], 0
    while p < len(buf):
        n = parse(buf, p, strict)
        out.append(n)
        p = n.end
    return out


def parse_one(buf, strict=True, recurse=True):
    """exactly one TLV, no trailing bytes"""
    n = parse(buf, 0, strict, recurse=recurse)
    if n.end != len(buf):
        raise DERError("trailing bytes")
    return n


def dec_bool(c):
    if c == b"\xff":
        return True
    if c == b"\x00":
        return False
    raise DERError("BOOLEAN content %s" % c.hex())


def dec_int(c):
    if len(c) == 0:
        raise DERError("empty INTEGER")
    if len(c) > 1 and ((c[0] == 0 and not c[1] & 0x80) or (c[0] == 0xFF and c[1] & 0x80)):
        raise DERError("non-minimal INTEGER")
    return int.from_bytes(c, "big", signed=True)


def dec_bitstring(c):
    """-> (data, nbits)"""
    if len(c) == 0 or c[0] > 7 or (len(c) == 1 and c[0]):
        raise DERError("bad BIT STRING header")
    nbits = 8 * (len(c) - 1) - c[0]
    if c[0] and c[-1] & ((1 << c[0]) - 1):
        raise DERError("unused bits not zero")
    return bytes(c[1:]), nbits


def dec_named_bits(c):
    data, nbits = dec_bitstring(c)
    if nbits and not (data[(nbits - 1) // 8] >> (7 - (nbits - 1) % 8)) & 1:
        raise DERError("trailing zero bit in named bit list")
    v = 0
    for i in range(nbits):
        if data[i // 8] & (0x80 >> (i % 8)):
            v |= 1 << i
    return v


def dec_oid(c):
    if len(c) == 0 or c[-1] & 0x80:
        raise DERError("bad OID content")
    subs, v, start = [], 0, True
    for b in c:
        if start and b == 0x80:
            raise DERError("non-minimal OID subidentifier")
        start = False
        v = (v << 7) | (b & 0x7F)
        if not b & 0x80:
            subs.append(v)
            v, start = 0, True
    f = subs[0]
    first = (0, f) if f < 40 else (1, f - 40) if f < 80 else (2, f - 80)
    return first + tuple(subs[1:])


def _time(c, fmt_len):
    try:
        s = c.decode("ascii")
    except UnicodeDecodeError:
        raise DERError("bad time")
    if len(s) != fmt_len or s[-1] != "Z" or not s[:-1].isdigit():
        raise DERError("bad time %r" % s)
    return s


def _mk(y, s):
    try:
        d = datetime.datetime(y, int(s[0:2]), int(s[2:4]), int(s[4:6]), int(s[6:8]), int(s[8:10]))
    except ValueError:
        raise DERError("bad time fields")
    return int((d - _EPOCH).total_seconds())


def dec_utctime(c):
    s = _time(c, 13)
    yy = int(s[0:2])
    return _mk(1900 + yy if yy >= 50 else 2000 + yy, s[2:])


def dec_gentime(c):
    s = _time(c, 15)
    return _mk(int(s[0:4]), s[4:])


def is_der(buf, universal_strict=True):
    """True iff buf is exactly one TLV in strict DER; universal primitives are also value-checked."""
    try:
        n = parse_one(buf, strict=True)
        if universal_strict:
            for x in n.walk():
                if x.cls == 0 and not x.constructed and x.tag in (BOOLEAN, INTEGER, ENUMERATED, BIT_STRING, NULL, OID,
                                                                  UTF8, PRINTABLE, IA5, UTCTIME, GENTIME):
                    x.value()
        return True
    except (DERError, UnicodeDecodeError):
        return False


# ---------------------------------------------------------------------------------------------------
# editing a field inside a nested blob

def replace(node, new_tlv, fix_lengths=True):
    """Bytes of the whole buffer of `node`'s tree with node's TLV replaced by new_tlv.  With fix_lengths the
    length octets of every ancestor are re-encoded (minimal DER) so that only the replaced field differs."""
    new = bytes(new_tlv)
    n = node
    while n.parent is not None:
        p = n.parent
        before = p.buf[p.coff:n.off]
        after = p.buf[n.end:p.end]
        content = before + new + after
        new = (bytes([p.tag]) + enc_len(len(content)) + content) if fix_lengths else (p.header + content)
        n = p
    return n.buf[:n.off] + new + n.buf[n.end:]


def flip_bit(buf, off, bit=0):
    b = bytearray(buf)
    b[off] ^= 1 << bit
    return bytes(b)


# ---------------------------------------------------------------------------------------------------
# mutators

def len_variants(n):
    """Non-minimal (BER-only) encodings of the length n: [(label, bytes)]"""
    out = []
    b = n.to_bytes(max(1, (n.bit_length() + 7) // 8), "big")
    if n < 0x80:
        out.append(("long-form-1", b"\x81" + b))
    out.append(("zero-padded", bytes([0x80 | (len(b) + 1)]) + b"\0" + b))
    if len(b) + 2 <= 4:
        out.append(("zero-padded-2", bytes([0x80 | (len(b) + 2)]) + b"\0\0" + b))
    out.append(("four-byte", b"\x84" + n.to_bytes(4, "big")) if len(b) < 4 else ("five-byte", b"\x85" + n.to_bytes(5, "big")))
    return out


# mutant classes whose acceptance by a DER decoder violates canonicity (used by callers for finding keys)
NONCANONICAL = ("len", "int-pad", "int-neg", "bool", "indef", "oid-pad", "bits-unused")
MALFORMED = ("trunc", "overlong", "short", "tag", "trailing-inner", "empty")


def mutants(good, max_nodes=40, top_trailing=True, recurse=True):
    """-> [(label, class, bytes)].  `good` must be one strict DER TLV.  Each mutant changes exactly one thing and
    keeps all other lengths consistent.  Classes:
       len       non-minimal length octets on some node              int-pad   INTEGER with a redundant leading 00 / FF
       int-neg   INTEGER made negative (sign octet dropped or top bit set)   bool  BOOLEAN content other than 00/FF
       indef     indefinite length (constructed) / 0x80 on primitive  oid-pad   OID subidentifier with leading 0x80
       bits-unused  BIT STRING unused-bit count changed or unused bits set
       tag       identifier octet changed                            trailing  bytes after the outermost TLV
       trailing-inner  extra TLV / byte at the end of a constructed node (lengths fixed up)
       trunc     last byte(s) missing                                overlong / short  length one more / less than content
       empty     primitive emptied
    Labels are "<class>/<detail>@<path>".  recurse=False treats the content of a constructed outer TLV as opaque."""
    root = parse_one(good, strict=True, recurse=recurse)
    out = []
    nodes = list(root.walk())[:max_nodes]

    def add(label, cls, b):
        if b != good:
            out.append((label, cls, bytes(b)))

    for n in nodes:
        at = "@" + ".".join(str(i) for i in n.path()) if n.parent is not None else "@"
        tagb = bytes([n.tag])
        c = n.content
        for lab, lb in len_variants(n.clen):
            add("len/%s%s" % (lab, at), "len", replace(n, tagb + lb + c))
        if n.constructed and n.children is not None:
            add("indef/constructed%s" % at, "indef", replace(n, tagb + b"\x80" + c + b"\0\0"))
            add("trailing-inner/null%s" % at, "trailing-inner", replace(n, tlv(n.tag, c + b"\x05\x00")))
            add("trailing-inner/byte%s" % at, "trailing-inner", replace(n, tlv(n.tag, c + b"\x00")))
        else:
            add("indef/primitive%s" % at, "indef", replace(n, tagb + b"\x80" + c + b"\0\0"))
        add("tag/flip-low%s" % at, "tag", replace(n, bytes([n.tag ^ 0x01]) + n.raw[1:]))
        add("tag/flip-constructed%s" % at, "tag", replace(n, bytes([n.tag ^ 0x20]) + n.raw[1:]))
        add("overlong/len+1%s" % at, "overlong", replace(n, tagb + enc_len(n.clen + 1) + c, fix_lengths=True))
        if n.clen:
            add("short/len-1%s" % at, "short", replace(n, tagb + enc_len(n.clen - 1) + c, fix_lengths=True))
        if n.cls == 0 and not n.constructed:
            if n.tag in (INTEGER, ENUMERATED) and n.clen:
                add("int-pad/leading-00%s" % at, "int-pad", replace(n, tlv(n.tag, b"\0" + c)))
                add("int-pad/leading-0000%s" % at, "int-pad", replace(n, tlv(n.tag, b"\0\0" + c)))
                if c[0] == 0 and n.clen > 1:
                    add("int-neg/sign-octet-dropped%s" % at, "int-neg", replace(n, tlv(n.tag, c[1:])))
                if not c[0] & 0x80:
                    add("int-neg/top-bit-set%s" % at, "int-neg", replace(n, tlv(n.tag, bytes([c[0] | 0x80]) + c[1:])))
                add("int-pad/leading-ff%s" % at, "int-pad" if c[0] & 0x80 else "int-neg", replace(n, tlv(n.tag, b"\xff" + c)))
                add("empty/integer%s" % at, "empty", replace(n, tlv(n.tag, b"")))
            elif n.tag == BOOLEAN and n.clen == 1:
                for v in (0x01, 0x7F, 0x80, 0xFE):
                    add("bool/%02x%s" % (v, at), "bool", replace(n, tlv(n.tag, bytes([v]))))
                add("bool/two-octets%s" % at, "bool", replace(n, tlv(n.tag, c + c)))
                add("empty/boolean%s" % at, "empty", replace(n, tlv(n.tag, b"")))
            elif n.tag == OID and n.clen:
                add("oid-pad/first%s" % at, "oid-pad", replace(n, tlv(n.tag, b"\x80" + c)))
                # pad the last subidentifier
                i = n.clen - 1
                while i > 0 and c[i - 1] & 0x80:
                    i -= 1
                add("oid-pad/last%s" % at, "oid-pad", replace(n, tlv(n.tag, c[:i] + b"\x80" + c[i:])))
                add("trunc/oid-unterminated%s" % at, "trunc", replace(n, tlv(n.tag, c[:-1] + bytes([c[-1] | 0x80]))))
                add("empty/oid%s" % at, "empty", replace(n, tlv(n.tag, b"")))
            elif n.tag == BIT_STRING and n.clen:
                if n.clen > 1 and c[0] < 7:
                    add("bits-unused/count+1-dirty%s" % at, "bits-unused",
                        replace(n, tlv(n.tag, bytes([c[0] + 1]) + c[1:-1] + bytes([c[-1] | (1 << c[0])]))))
                add("bits-unused/count-8%s" % at, "bits-unused", replace(n, tlv(n.tag, b"\x08" + c[1:])))
                add("empty/bitstring%s" % at, "empty", replace(n, tlv(n.tag, b"")))
            elif n.tag == NULL:
                add("trailing-inner/null-content%s" % at, "trailing-inner", replace(n, tlv(n.tag, b"\0")))
    if top_trailing:
        add("trailing/00@", "trailing", good + b"\0")
        add("trailing/tlv@", "trailing", good + b"\x05\x00")
    add("trunc/last-byte@", "trunc", good[:-1])
    add("trunc/half@", "trunc", good[:max(1, len(good) // 2)])
    add("trunc/header-only@", "trunc", good[:root.hlen])
    seen, uniq = set(), []
    for lab, cls, b in out:
        if b not in seen:
            seen.add(b)
            uniq.append((lab, cls, b))
    return uniq


# ---------------------------------------------------------------------------------------------------
# self-test against published examples (X.690 clause 8 examples, RFC 5280 / RFC 5915 fragments)

def _selftest():
    assert enc_len(0) == b"\x00" and enc_len(127) == b"\x7f" and enc_len(128) == b"\x81\x80" and enc_len(256) == b"\x82\x01\x00"
    assert enc_bool(True) == bytes.fromhex("0101ff")                                   # X.690 8.2.2 example
    assert enc_int(0) == b"\x02\x01\x00" and enc_int(127) == b"\x02\x01\x7f" and enc_int(128) == b"\x02\x02\x00\x80"
    assert enc_int(256) == b"\x02\x02\x01\x00" and enc_int(-128) == b"\x02\x01\x80" and enc_int(-129) == b"\x02\x02\xff\x7f"
    assert enc_bitstring(bytes.fromhex("0a3b5f291cd0"), 44) == bytes.fromhex("0307040a3b5f291cd0")   # X.690 8.6.4.2
    assert enc_null() == b"\x05\x00"
    assert enc_oid((2, 100, 3)) == bytes.fromhex("0603813403")                            # X.690 8.19.5
    assert enc_oid((1, 2, 840, 113549, 1, 1, 11)) == bytes.fromhex("06092a864886f70d01010b")
    assert enc_oid((1, 2, 156, 10197, 1, 301)) == bytes.fromhex("06082a811ccf5501822d")   # SM2 curve OID
    assert dec_oid(bytes.fromhex("2a811ccf5501822d")) == (1, 2, 156, 10197, 1, 301)
    assert dec_oid(bytes.fromhex("813403")) == (2, 100, 3)
    assert enc_utf8("Jones") == bytes.fromhex("0c054a6f6e6573")
    assert enc_utctime(688996800 + 11 * 3600 + 2 * 60 + 3 - 0) .startswith(b"\x17\x0d9111")  # 1991-11-..
    assert utctime_str(0) == "700101000000Z" and gentime_str(0) == "19700101000000Z"
    assert gentime_str(MAX_TIME) == "99991231235959Z" and dec_gentime(b"99991231235959Z") == MAX_TIME
    assert dec_utctime(b"491231235959Z") == 2524607999 and dec_utctime(b"500101000000Z") == -631152000
    assert enc_named_bits(0) == b"\x03\x01\x00" and enc_named_bits(1) == b"\x03\x02\x07\x80"
    assert enc_named_bits(0b101) == b"\x03\x02\x05\xa0" and enc_named_bits(1 << 8) == b"\x03\x03\x07\x00\x80"
    assert dec_named_bits(b"\x05\xa0") == 5
    assert implicit(0, enc_octets(b"ab")) == b"\x80\x02ab" and implicit(3, enc_seq()) == b"\xa3\x00"
    assert explicit(0, enc_int(2)) == bytes.fromhex("a003020102")                         # X.509 version [0] EXPLICIT v3
    blob = enc_seq(enc_int(1), enc_seq(enc_oid((1, 2, 3)), enc_null()), enc_octets(b"\x01" * 200), explicit(1, enc_bool(False)))
    t = parse_one(blob)
    assert [c.tag for c in t.children] == [2, 0x30, 4, 0xA1] and t.find(1, 0).value() == (1, 2, 3)
    assert t.find(3, 0).value() is False and t.find(2).hlen == 3 and t.find(2).path() == (2,)
    assert t.value()[0] == 1 and t.value()[2] == b"\x01" * 200
    b2 = replace(t.find(1, 0), enc_oid((1, 2, 3, 4)))
    assert parse_one(b2).find(1, 0).value() == (1, 2, 3, 4) and len(b2) == len(blob) + 1 and is_der(b2)
    assert is_der(blob) and not is_der(blob + b"\0") and not is_der(b"\x30\x80\x00\x00") and not is_der(b"\x02\x02\x00\x01")
    assert not is_der(b"\x01\x01\x01") and not is_der(b"\x04\x81\x01\x00") and is_der(b"\x04\x81\x80" + b"\0" * 128)
    ms = mutants(blob)
    assert len(ms) > 60 and all(b != blob for _, _, b in ms)
    for lab, cls, b in ms:
        if cls in NONCANONICAL or cls in ("trailing", "trunc", "overlong", "short", "empty", "trailing-inner"):
            assert not is_der(b) or cls in ("int-neg", "trailing-inner", "short", "overlong"), lab
    # BER-tolerant parse locates fields in a non-canonical blob
    ind = [b for l, c, b in ms if l.startswith("indef/constructed@1")][0]
    assert parse(ind, strict=False).find(1).indefinite
    return True


_selftest()
