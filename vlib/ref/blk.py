"""Block / stream primitives taken from OpenSSL 3 libcrypto through ctypes (EVP API).

This is the trusted base for SM4, AES and ChaCha20: a second, unrelated
implementation.  The library is dlopen()ed RTLD_LOCAL so that none of its
symbols can be picked up by (or clash with) libgmssl.  Everything is validated
against published vectors at import time (bottom of the file).

Only bulk calls are offered (one EVP call over many blocks) because Python
under the ASan preload is slow.
"""
import ctypes
from ctypes import c_void_p, c_char_p, c_int, byref

_C = ctypes.CDLL("libcrypto.so.3", mode=ctypes.RTLD_LOCAL)
_C.EVP_CIPHER_fetch.restype = c_void_p
_C.EVP_CIPHER_fetch.argtypes = [c_void_p, c_char_p, c_char_p]
_C.EVP_CIPHER_CTX_new.restype = c_void_p
_C.EVP_CIPHER_CTX_free.argtypes = [c_void_p]
_C.EVP_CipherInit_ex.argtypes = [c_void_p, c_void_p, c_void_p, c_char_p, c_char_p, c_int]
_C.EVP_CipherUpdate.argtypes = [c_void_p, c_char_p, ctypes.POINTER(c_int), c_char_p, c_int]
_C.EVP_CipherFinal_ex.argtypes = [c_void_p, c_char_p, ctypes.POINTER(c_int)]
_C.EVP_CIPHER_CTX_set_padding.argtypes = [c_void_p, c_int]
_C.EVP_CIPHER_CTX_ctrl.argtypes = [c_void_p, c_int, c_int, c_void_p]
_C.OpenSSL_version.restype = c_char_p

EVP_CTRL_AEAD_SET_IVLEN = 0x9
EVP_CTRL_AEAD_GET_TAG = 0x10
EVP_CTRL_AEAD_SET_TAG = 0x11

_ciphers = {}


def version():
    return _C.OpenSSL_version(0).decode()


def _cipher(name):
    c = _ciphers.get(name)
    if c is None:
        c = _C.EVP_CIPHER_fetch(None, name.encode(), None)
        if not c:
            raise RuntimeError("libcrypto has no cipher " + name)
        _ciphers[name] = c
    return c


def has(name):
    try:
        _cipher(name)
        return True
    except RuntimeError:
        return False


def evp(name, key, iv, data, enc=True, pad=False):
    """One-shot EVP cipher call. Returns output bytes; raises ValueError when Final fails (bad padding)."""
    ctx = _C.EVP_CIPHER_CTX_new()
    try:
        if _C.EVP_CipherInit_ex(ctx, _cipher(name), None, key, iv, 1 if enc else 0) != 1:
            raise RuntimeError("EVP_CipherInit_ex(%s) failed" % name)
        _C.EVP_CIPHER_CTX_set_padding(ctx, 1 if pad else 0)
        out = ctypes.create_string_buffer(len(data) + 32)
        n = c_int(0)
        if _C.EVP_CipherUpdate(ctx, out, byref(n), data, len(data)) != 1:
            raise RuntimeError("EVP_CipherUpdate(%s) failed" % name)
        m = c_int(0)
        if _C.EVP_CipherFinal_ex(ctx, ctypes.cast(ctypes.addressof(out) + n.value, c_char_p), byref(m)) != 1:
            raise ValueError("EVP_CipherFinal_ex(%s) failed" % name)
        return out.raw[:n.value + m.value]
    finally:
        _C.EVP_CIPHER_CTX_free(ctx)


def _aesname(key, mode):
    if len(key) not in (16, 24, 32):
        raise ValueError("AES key length")
    return "AES-%d-%s" % (len(key) * 8, mode)


def name_of(alg, key, mode):
    return ("SM4-" + mode) if alg == "sm4" else _aesname(key, mode)


def ecb(alg, key, data, enc=True):
    """ECB over any number of whole blocks with alg in {'sm4','aes'} (AES variant chosen by key length)."""
    assert len(data) % 16 == 0
    if not data:
        return b""
    return evp(name_of(alg, key, "ECB"), key, None, data, enc, pad=False)


def cbc(alg, key, iv, data, enc=True, pad=False):
    return evp(name_of(alg, key, "CBC"), key, iv, data, enc, pad)


def ctr(alg, key, ctr0, data):
    """CTR with a 128-bit big-endian counter (SP 800-38A)."""
    if not data:
        return b""
    return evp(name_of(alg, key, "CTR"), key, ctr0, data, True, False)


def ofb(alg, key, iv, data):
    if not data:
        return b""
    return evp(name_of(alg, key, "OFB"), key, iv, data, True, False)


def cfb128(alg, key, iv, data, enc=True):
    if not data:
        return b""
    return evp(name_of(alg, key, "CFB"), key, iv, data, enc, False)


def aes_gcm(key, iv, aad, data, taglen=16, enc=True, tag=None):
    """AES-GCM from OpenSSL. enc: returns (ct, tag[:taglen]); dec: returns plaintext or None on tag mismatch."""
    name = _aesname(key, "GCM")
    ctx = _C.EVP_CIPHER_CTX_new()
    try:
        assert _C.EVP_CipherInit_ex(ctx, _cipher(name), None, None, None, 1 if enc else 0) == 1
        assert _C.EVP_CIPHER_CTX_ctrl(ctx, EVP_CTRL_AEAD_SET_IVLEN, len(iv), None) == 1
        assert _C.EVP_CipherInit_ex(ctx, None, None, key, iv, 1 if enc else 0) == 1
        n = c_int(0)
        if aad:
            assert _C.EVP_CipherUpdate(ctx, None, byref(n), aad, len(aad)) == 1
        out = ctypes.create_string_buffer(len(data) + 16)
        tot = 0
        if data:
            assert _C.EVP_CipherUpdate(ctx, out, byref(n), data, len(data)) == 1
            tot = n.value
        if not enc:
            tb = ctypes.create_string_buffer(bytes(tag), len(tag))
            assert _C.EVP_CIPHER_CTX_ctrl(ctx, EVP_CTRL_AEAD_SET_TAG, len(tag), tb) == 1
        r = _C.EVP_CipherFinal_ex(ctx, ctypes.cast(ctypes.addressof(out) + tot, c_char_p), byref(n))
        if not enc:
            return out.raw[:tot] if r == 1 else None
        assert r == 1
        tb = ctypes.create_string_buffer(16)
        assert _C.EVP_CIPHER_CTX_ctrl(ctx, EVP_CTRL_AEAD_GET_TAG, 16, tb) == 1
        return out.raw[:tot], tb.raw[:taglen]
    finally:
        _C.EVP_CIPHER_CTX_free(ctx)


def aes_ccm(key, nonce, aad, data, taglen):
    """AES-CCM encryption from OpenSSL (used only to validate the Python CCM formatting in modes.py)."""
    name = _aesname(key, "CCM")
    ctx = _C.EVP_CIPHER_CTX_new()
    try:
        assert _C.EVP_CipherInit_ex(ctx, _cipher(name), None, None, None, 1) == 1
        assert _C.EVP_CIPHER_CTX_ctrl(ctx, EVP_CTRL_AEAD_SET_IVLEN, len(nonce), None) == 1
        assert _C.EVP_CIPHER_CTX_ctrl(ctx, EVP_CTRL_AEAD_SET_TAG, taglen, None) == 1
        assert _C.EVP_CipherInit_ex(ctx, None, None, key, nonce, 1) == 1
        n = c_int(0)
        assert _C.EVP_CipherUpdate(ctx, None, byref(n), None, len(data)) == 1
        if aad:
            assert _C.EVP_CipherUpdate(ctx, None, byref(n), aad, len(aad)) == 1
        out = ctypes.create_string_buffer(len(data) + 16)
        assert _C.EVP_CipherUpdate(ctx, out, byref(n), data, len(data)) == 1    # also for an empty payload (computes the tag)
        tot = n.value
        assert _C.EVP_CipherFinal_ex(ctx, ctypes.cast(ctypes.addressof(out) + tot, c_char_p), byref(n)) == 1
        tb = ctypes.create_string_buffer(16)
        assert _C.EVP_CIPHER_CTX_ctrl(ctx, EVP_CTRL_AEAD_GET_TAG, taglen, tb) == 1
        return out.raw[:tot], tb.raw[:taglen]
    finally:
        _C.EVP_CIPHER_CTX_free(ctx)


def aes_xts(key, tweak, data, enc=True):
    """IEEE 1619 XTS-AES from OpenSSL (validates the XTS skeleton of modes.py; the SM4 variant differs only in the
    bit order of the tweak multiplication)."""
    name = "AES-%d-XTS" % (len(key) * 4)
    return evp(name, key, tweak, data, enc, False)


def chacha20_blocks(key, nonce, counter, nblocks):
    """RFC 8439 ChaCha20 key stream blocks counter .. counter+nblocks-1, each with the block counter taken mod 2^32
    (the nonce words are never touched; OpenSSL itself would carry into the nonce, so a wrapping request is split)."""
    out = b""
    counter &= 0xFFFFFFFF
    while nblocks > 0:
        k = min(nblocks, (1 << 32) - counter)
        out += evp("ChaCha20", key, counter.to_bytes(4, "little") + nonce, b"\0" * (64 * k), True, False)
        nblocks -= k
        counter = (counter + k) & 0xFFFFFFFF
    return out


# ---------------------------------------------------------------------------
# pure Python ChaCha20 block function (RFC 8439 section 2.3), used to cross-check the OpenSSL path incl. counter wrap

def _qr(s, a, b, c, d):
    M = 0xFFFFFFFF
    s[a] = (s[a] + s[b]) & M; s[d] ^= s[a]; s[d] = ((s[d] << 16) | (s[d] >> 16)) & M
    s[c] = (s[c] + s[d]) & M; s[b] ^= s[c]; s[b] = ((s[b] << 12) | (s[b] >> 20)) & M
    s[a] = (s[a] + s[b]) & M; s[d] ^= s[a]; s[d] = ((s[d] << 8) | (s[d] >> 24)) & M
    s[c] = (s[c] + s[d]) & M; s[b] ^= s[c]; s[b] = ((s[b] << 7) | (s[b] >> 25)) & M


def chacha20_block_py(key, nonce, counter):
    import struct
    init = [0x61707865, 0x3320646e, 0x79622d32, 0x6b206574] + list(struct.unpack("<8I", key)) + [counter & 0xFFFFFFFF] + \
        list(struct.unpack("<3I", nonce))
    s = list(init)
    for _ in range(10):
        _qr(s, 0, 4, 8, 12); _qr(s, 1, 5, 9, 13); _qr(s, 2, 6, 10, 14); _qr(s, 3, 7, 11, 15)
        _qr(s, 0, 5, 10, 15); _qr(s, 1, 6, 11, 12); _qr(s, 2, 7, 8, 13); _qr(s, 3, 4, 9, 14)
    return struct.pack("<16I", *[(a + b) & 0xFFFFFFFF for a, b in zip(s, init)])


# ---------------------------------------------------------------------------
# self-validation (published vectors)

def _selftest():
    H = bytes.fromhex
    # GB/T 32907 / draft-ribose-cfrg-sm4 example 1
    k = H("0123456789abcdeffedcba9876543210")
    assert ecb("sm4", k, k) == H("681edf34d206965e86b3e94f536e4246")
    assert ecb("sm4", k, H("681edf34d206965e86b3e94f536e4246"), enc=False) == k
    # FIPS 197 appendix C
    pt = H("00112233445566778899aabbccddeeff")
    assert ecb("aes", H("000102030405060708090a0b0c0d0e0f"), pt) == H("69c4e0d86a7b0430d8cdb78070b4c55a")
    assert ecb("aes", H("000102030405060708090a0b0c0d0e0f1011121314151617"), pt) == H("dda97ca4864cdfe06eaf70a0ec0d7191")
    assert ecb("aes", H("000102030405060708090a0b0c0d0e0f101112131415161718191a1b1c1d1e1f"), pt) == H("8ea2b7ca516745bfeafc49904b496089")
    # RFC 8439 2.3.2 block function, 2.4.2 encryption
    key = bytes(range(32))
    blk = chacha20_block_py(key, H("000000090000004a00000000"), 1)
    assert blk == H("10f1e7e4d13b5915500fdd1fa32071c4c7d1f4c733c068030422aa9ac3d46c4e"
                    "d2826446079faa0914c2d705d98b02a2b5129cd1de164eb9cbd083e8a2503c4e")
    assert chacha20_blocks(key, H("000000090000004a00000000"), 1, 1) == blk
    n = H("000000000000004a00000000")
    assert chacha20_blocks(key, n, 0xFFFFFFFE, 4) == b"".join(chacha20_block_py(key, n, c) for c in (0xFFFFFFFE, 0xFFFFFFFF, 0, 1))
    # SP 800-38A F.5.1 CTR-AES128, F.2.1 CBC-AES128
    k = H("2b7e151628aed2a6abf7158809cf4f3c")
    p = H("6bc1bee22e409f96e93d7e117393172aae2d8a571e03ac9c9eb76fac45af8e51")
    assert ctr("aes", k, H("f0f1f2f3f4f5f6f7f8f9fafbfcfdfeff"), p) == H("874d6191b620e3261bef6864990db6ce9806f66b7970fdff8617187bb9fffdff")
    assert cbc("aes", k, H("000102030405060708090a0b0c0d0e0f"), p) == H("7649abac8119b246cee98e9b12e9197d5086cb9b507219ee95db113a917678b2")


_selftest()
