"""Strict DER for small structures (SEQUENCE of INTEGER / OCTET STRING), written from X.690.

parse_* functions return None unless the input is exactly one canonical DER
encoding (definite minimal lengths, minimal two's-complement integers, no
trailing bytes)."""


def enc_len(n):
    if n < 0x80:
        return bytes([n])
    b = n.to_bytes((n.bit_length() + 7) // 8, "big")
    return bytes([0x80 | len(b)]) + b


def enc_tlv(tag, content):
    return bytes([tag]) + enc_len(len(content)) + bytes(content)


def enc_uint(v):
    """non-negative INTEGER"""
    b = v.to_bytes(max(1, (v.bit_length() + 7) // 8), "big")
    if b[0] & 0x80:
        b = b"\0" + b
    return enc_tlv(0x02, b)


def enc_octets(b):
    return enc_tlv(0x04, b)


def enc_seq(*items):
    return enc_tlv(0x30, b"".join(items))


def enc_sig(r, s):
    return enc_seq(enc_uint(r), enc_uint(s))


def read_tlv(buf, off=0):
    """Strict: returns (tag, content, next_off) or None."""
    if off + 2 > len(buf):
        return None
    tag = buf[off]
    if tag & 0x1F == 0x1F:
        return None  # high tag numbers not used here
    l0 = buf[off + 1]
    p = off + 2
    if l0 < 0x80:
        n = l0
    else:
        k = l0 & 0x7F
        if k == 0 or k > 4 or p + k > len(buf):
            return None  # indefinite / absurd
        n = int.from_bytes(buf[p:p + k], "big")
        if buf[p] == 0 or n < 0x80:
            return None  # non-minimal
        p += k
    if p + n > len(buf):
        return None
    return tag, bytes(buf[p:p + n]), p + n


def parse_int(content):
    """Strict INTEGER content -> Python int (may be negative) or None."""
    if len(content) == 0:
        return None
    if len(content) > 1:
        if content[0] == 0x00 and not (content[1] & 0x80):
            return None
        if content[0] == 0xFF and (content[1] & 0x80):
            return None
    return int.from_bytes(content, "big", signed=True)


def parse_sig(buf):
    """-> (r, s) as Python ints, or None if not exactly SEQUENCE{INTEGER, INTEGER} in strict DER."""
    t = read_tlv(buf, 0)
    if t is None or t[0] != 0x30 or t[2] != len(buf):
        return None
    body = t[1]
    a = read_tlv(body, 0)
    if a is None or a[0] != 0x02:
        return None
    b = read_tlv(body, a[2])
    if b is None or b[0] != 0x02 or b[2] != len(body):
        return None
    r, s = parse_int(a[1]), parse_int(b[1])
    if r is None or s is None:
        return None
    return r, s


# --- mutators: each returns a byte string that is NOT the canonical encoding ---------------------

def _len_long(n, extra=1):
    b = n.to_bytes(max(1, (n.bit_length() + 7) // 8), "big")
    b = b"\0" * (extra - 1) + b if extra > 1 else b
    if n < 0x80 or extra > 1:
        return bytes([0x80 | len(b)]) + b
    return bytes([0x80 | (len(b) + 1)]) + b"\0" + b


def sig_mutants(r, s):
    """(label, bytes) non-canonical or malformed variants of the signature (r, s)."""
    def ibody(v):
        b = v.to_bytes(max(1, (v.bit_length() + 7) // 8), "big")
        return (b"\0" + b) if b[0] & 0x80 else b
    rb, sb = ibody(r), ibody(s)
    ri, si = enc_tlv(2, rb), enc_tlv(2, sb)
    good = enc_seq(ri, si)
    out = []
    out.append(("seq-long-length", b"\x30" + _len_long(len(ri) + len(si)) + ri + si))
    out.append(("seq-long-length-2", b"\x30" + _len_long(len(ri) + len(si), 2) + ri + si))
    out.append(("int-long-length", enc_seq(b"\x02" + _len_long(len(rb)) + rb, si)))
    out.append(("int-leading-zero-r", enc_seq(enc_tlv(2, b"\0" + rb), si)))
    out.append(("int-leading-zero-s", enc_seq(ri, enc_tlv(2, b"\0" + sb))))
    out.append(("int-two-leading-zeros", enc_seq(enc_tlv(2, b"\0\0" + rb), si)))
    if rb[0] == 0:
        out.append(("int-negative-r", enc_seq(enc_tlv(2, rb[1:]), si)))   # drops the sign octet
    if sb[0] == 0:
        out.append(("int-negative-s", enc_seq(ri, enc_tlv(2, sb[1:]))))
    out.append(("indefinite", b"\x30\x80" + ri + si + b"\0\0"))
    out.append(("trailing-byte", good + b"\0"))
    out.append(("trailing-in-seq", enc_seq(ri, si, b"\0")))
    out.append(("third-integer", enc_seq(ri, si, enc_uint(1))))
    out.append(("trailing-null", enc_seq(ri, si, b"\x05\x00")))
    out.append(("one-integer", enc_seq(ri)))
    out.append(("empty-seq", enc_seq()))
    out.append(("wrong-seq-tag", b"\x31" + good[1:]))
    out.append(("wrong-int-tag", enc_seq(enc_tlv(4, rb), si)))
    out.append(("empty-integer", enc_seq(enc_tlv(2, b""), si)))
    out.append(("truncated", good[:-1]))
    out.append(("truncated-len", good[:-1][:1] + good[1:]))  # same as good (control, filtered by caller)
    out.append(("seq-length-short", b"\x30" + enc_len(len(ri) + len(si) - 1) + ri + si))
    out.append(("seq-length-long", b"\x30" + enc_len(len(ri) + len(si) + 1) + ri + si))
    out.append(("constructed-int", enc_seq(enc_tlv(0x22, rb), si)))
    out.append(("int-33-bytes", enc_seq(enc_tlv(2, b"\x01" + (b"\0" * 32)), si)))
    return [(l, b) for (l, b) in out if b != good]


assert parse_sig(enc_sig(1, 2)) == (1, 2)
assert parse_sig(enc_sig(1 << 255, 0x80)) == (1 << 255, 0x80)
assert all(parse_sig(b) is None or parse_sig(b) != (5, 0x85) or l in ("int-negative-r", "int-negative-s") for l, b in sig_mutants(5, 0x85))


# --- SM2 ciphertext: SEQUENCE { INTEGER x, INTEGER y, OCTET STRING hash, OCTET STRING c } -------------

def enc_ct(x, y, hsh, c):
    return enc_seq(enc_uint(x), enc_uint(y), enc_octets(hsh), enc_octets(c))


def parse_ct(buf):
    """-> (x, y, hash, c) or None unless buf is exactly one strict DER SM2 ciphertext structure."""
    t = read_tlv(buf, 0)
    if t is None or t[0] != 0x30 or t[2] != len(buf):
        return None
    body = t[1]
    items, off = [], 0
    for tag in (0x02, 0x02, 0x04, 0x04):
        e = read_tlv(body, off)
        if e is None or e[0] != tag:
            return None
        items.append(e[1])
        off = e[2]
    if off != len(body):
        return None
    x, y = parse_int(items[0]), parse_int(items[1])
    if x is None or y is None:
        return None
    return x, y, items[2], items[3]


def ct_mutants(x, y, hsh, c):
    def ibody(v):
        b = v.to_bytes(max(1, (v.bit_length() + 7) // 8), "big")
        return (b"\0" + b) if b[0] & 0x80 else b
    xb, yb = ibody(x), ibody(y)
    xi, yi, hi, ci = enc_tlv(2, xb), enc_tlv(2, yb), enc_octets(hsh), enc_octets(c)
    good = enc_seq(xi, yi, hi, ci)
    n = len(xi) + len(yi) + len(hi) + len(ci)
    out = [
        ("seq-long-length", b"\x30" + _len_long(n, 3) + xi + yi + hi + ci),
        ("x-leading-zero", enc_seq(enc_tlv(2, b"\0" + xb), yi, hi, ci)),
        ("y-leading-zero", enc_seq(xi, enc_tlv(2, b"\0" + yb), hi, ci)),
        ("x-long-length", enc_seq(b"\x02" + _len_long(len(xb)) + xb, yi, hi, ci)),
        ("hash-long-length", enc_seq(xi, yi, b"\x04" + _len_long(32) + hsh, ci)),
        ("c-long-length", enc_seq(xi, yi, hi, b"\x04" + (_len_long(len(c)) if len(c) < 0x80 else _len_long(len(c), 3)) + c)),
        ("indefinite", b"\x30\x80" + xi + yi + hi + ci + b"\0\0"),
        ("trailing-byte", good + b"\0"),
        ("trailing-in-seq", enc_seq(xi, yi, hi, ci, b"\x05\x00")),
        ("missing-c", enc_seq(xi, yi, hi)),
        ("empty-c", enc_seq(xi, yi, hi, enc_octets(b""))),
        ("hash-31", enc_seq(xi, yi, enc_octets(hsh[:31]), ci)),
        ("hash-33", enc_seq(xi, yi, enc_octets(hsh + b"\0"), ci)),
        ("c-shortened", enc_seq(xi, yi, hi, enc_octets(c[:-1]))),
        ("c-extended", enc_seq(xi, yi, hi, enc_octets(c + b"\0"))),
        ("c-256", enc_seq(xi, yi, hi, enc_octets((c * 256)[:256]))),
        ("swap-xy", enc_seq(yi, xi, hi, ci)),
        ("swap-hash-c", enc_seq(xi, yi, ci, hi)),
        ("wrong-seq-tag", b"\x31" + good[1:]),
        ("int-as-octets", enc_seq(enc_tlv(4, xb), yi, hi, ci)),
        ("octets-as-int", enc_seq(xi, yi, enc_tlv(2, hsh), ci)),
        ("truncated", good[:-1]),
        ("constructed-octets", enc_seq(xi, yi, hi, enc_tlv(0x24, c))),
    ]
    if xb[0] == 0:
        out.append(("x-negative", enc_seq(enc_tlv(2, xb[1:]), yi, hi, ci)))
    return [(l, b) for (l, b) in out if b != good]


# --- a few more builders (keys, SPKI, minimal certificates) -----------------------------------------

OID_EC_PUBLIC_KEY = bytes.fromhex("2A8648CE3D0201")       # 1.2.840.10045.2.1
OID_SM2 = bytes.fromhex("2A811CCF5501822D")               # 1.2.156.10197.1.301
OID_SM2SIGN_SM3 = bytes.fromhex("2A811CCF55018375")       # 1.2.156.10197.1.501
OID_CN = bytes.fromhex("550403")


def enc_oid(raw):
    return enc_tlv(0x06, raw)


def enc_bits(b, unused=0):
    return enc_tlv(0x03, bytes([unused]) + bytes(b))


def enc_explicit(n, content):
    return enc_tlv(0xA0 | n, content)


def enc_utctime(s):
    return enc_tlv(0x17, s.encode())


def enc_name(cn):
    return enc_seq(enc_tlv(0x31, enc_seq(enc_oid(OID_CN), enc_tlv(0x0C, cn.encode()))))


def enc_spki(octets):
    return enc_seq(enc_seq(enc_oid(OID_EC_PUBLIC_KEY), enc_oid(OID_SM2)), enc_bits(octets))


def enc_ec_private_key(d_bytes, pub_octets):
    return enc_seq(enc_uint(1), enc_octets(d_bytes), enc_explicit(0, enc_oid(OID_SM2)), enc_explicit(1, enc_bits(pub_octets)))


def enc_pkcs8(d_bytes, pub_octets):
    return enc_seq(enc_uint(0), enc_seq(enc_oid(OID_EC_PUBLIC_KEY), enc_oid(OID_SM2)), enc_octets(enc_ec_private_key(d_bytes, pub_octets)))


def enc_min_cert(pub_octets, sig=b"\x30\x06\x02\x01\x01\x02\x01\x01"):
    alg = enc_seq(enc_oid(OID_SM2SIGN_SM3))
    tbs = enc_seq(enc_explicit(0, enc_uint(2)), enc_uint(0x1234), alg, enc_name("verif CA"),
                  enc_seq(enc_utctime("240101000000Z"), enc_utctime("340101000000Z")), enc_name("verif EE"), enc_spki(pub_octets))
    return enc_seq(tbs, alg, enc_bits(sig))


def enc_min_req(pub_octets, sig=b"\x30\x06\x02\x01\x01\x02\x01\x01"):
    alg = enc_seq(enc_oid(OID_SM2SIGN_SM3))
    info = enc_seq(enc_uint(0), enc_name("verif REQ"), enc_spki(pub_octets), enc_tlv(0xA0, b""))
    return enc_seq(info, alg, enc_bits(sig))
