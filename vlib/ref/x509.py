"""X.509 certificate builder on top of sigder.py and the Python SM2 model.

Certificates are built and *signed in Python* (deterministic nonces), so
shapes the library's own builders refuse can still be produced and no
library code is involved in making test fixtures.
"""
import hashlib, time, calendar, base64
from . import sigder as D
from . import sm2 as M

OID = {
    "C": "550406", "ST": "550408", "L": "550407", "O": "55040A", "OU": "55040B", "CN": "550403",
    "basicConstraints": "551D13", "keyUsage": "551D0F", "extKeyUsage": "551D25",
    "subjectKeyIdentifier": "551D0E", "authorityKeyIdentifier": "551D23",
    "serverAuth": "2B06010505070301", "clientAuth": "2B06010505070302", "anyExtendedKeyUsage": "551D2500",
    "codeSigning": "2B06010505070303",
    "unknown": "2A0304050607",   # 1.2.3.4.5.6.7 - not recognised by anybody
}

KU = {"digitalSignature": 0, "nonRepudiation": 1, "keyEncipherment": 2, "dataEncipherment": 3, "keyAgreement": 4,
      "keyCertSign": 5, "cRLSign": 6, "encipherOnly": 7, "decipherOnly": 8}


def oid(name):
    return D.enc_oid(bytes.fromhex(OID[name]))


NAME_EXTRA = (("C", "CN"), ("ST", "Beijing"), ("L", "Haidian"), ("O", "PKU"), ("OU", "CS"))


def name(cn, extra=NAME_EXTRA, last="CN"):
    """Name in the shape the toolkit's certgen produces (PrintableString attributes)."""
    rdns = b""
    for k, v in list(extra) + [(last, cn)]:
        rdns += D.enc_tlv(0x31, D.enc_seq(oid(k), D.enc_tlv(0x13, v.encode())))
    return D.enc_tlv(0x30, rdns)


def enc_time(t):
    st = time.gmtime(t)
    if 1950 <= st.tm_year < 2050:
        return D.enc_tlv(0x17, time.strftime("%y%m%d%H%M%SZ", st).encode())
    return D.enc_tlv(0x18, time.strftime("%Y%m%d%H%M%SZ", st).encode())


def enc_bool(v):
    return D.enc_tlv(0x01, b"\xff" if v else b"\x00")


def ext(oidname, critical, value_der):
    """critical: False / True, or an int 0..255 = the value octet of the BOOLEAN written as it is (BER-style TRUE other than FF, explicit 00)"""
    items = [oid(oidname)]
    if critical is True:
        items.append(enc_bool(True))
    elif critical is not False and critical is not None and not isinstance(critical, bool):
        items.append(D.enc_tlv(0x01, bytes([critical])))
    items.append(D.enc_octets(value_der))
    return D.enc_seq(*items)


def ext_basic_constraints(ca, path_len=None, critical=True):
    items = []
    if ca:
        items.append(enc_bool(True))      # DEFAULT FALSE is omitted in DER
    if path_len is not None:
        items.append(D.enc_uint(path_len))
    return ext("basicConstraints", critical, D.enc_seq(*items))


def ext_basic_constraints_explicit_false(critical=True):
    """cA encoded explicitly as FALSE (not DER-minimal, but seen in the wild)"""
    return ext("basicConstraints", critical, D.enc_seq(enc_bool(False)))


def key_usage_bits(names):
    v = 0
    for n in names:
        v |= 1 << KU[n]
    return v


def ext_key_usage(names, critical=True, padding=()):
    """padding: usages whose bit is set behind the last declared bit, i.e. inside the unused bits of the final octet - not part of the
    bit string (X.690 8.6.2.3; DER wants them zero)"""
    bits = key_usage_bits(names)
    # named bit list: bit 0 is the most significant bit of the first octet; trailing zero bits removed
    nbits = bits.bit_length() or 1
    buf = bytearray((nbits + 7) // 8)
    for i in range(nbits):
        if bits >> i & 1:
            buf[i // 8] |= 0x80 >> (i % 8)
    unused = (8 - nbits % 8) % 8
    for n in padding:
        i = KU[n]
        if nbits <= i < 8 * len(buf):
            buf[i // 8] |= 0x80 >> (i % 8)
    return ext("keyUsage", critical, D.enc_bits(bytes(buf), unused))


def ext_eku(purposes, critical=False):
    return ext("extKeyUsage", critical, D.enc_seq(*[oid(p) for p in purposes]))


def ext_unknown(critical):
    return ext("unknown", critical, D.enc_octets(b"verif"))


def spki(pub):
    return D.enc_spki(b"\x04" + M.i2b(pub[0]) + M.i2b(pub[1]))


ALG = D.enc_seq(D.enc_oid(D.OID_SM2SIGN_SM3))


def spki_shaped(pub, shape):
    """SubjectPublicKeyInfo that is well-formed DER but does not hold a usable SM2 public key"""
    x, y = M.i2b(pub[0]), M.i2b(pub[1])
    sm2 = D.enc_seq(D.enc_oid(D.OID_EC_PUBLIC_KEY), D.enc_oid(D.OID_SM2))
    if shape == "off-curve":
        return D.enc_seq(sm2, D.enc_bits(b"\x04" + x + M.i2b(pub[1] ^ 1)))
    if shape == "off-curve-x":
        return D.enc_seq(sm2, D.enc_bits(b"\x04" + M.i2b(pub[0] ^ (1 << 77)) + y))
    if shape == "all-zero":
        return D.enc_seq(sm2, D.enc_bits(b"\x04" + bytes(64)))
    if shape == "no-prefix":
        return D.enc_seq(sm2, D.enc_bits(x + y))
    if shape == "prefix-05":
        return D.enc_seq(sm2, D.enc_bits(b"\x05" + x + y))
    if shape == "short":
        return D.enc_seq(sm2, D.enc_bits(b"\x04" + x + y[:-1]))
    if shape == "long":
        return D.enc_seq(sm2, D.enc_bits(b"\x04" + x + y + b"\x00"))
    if shape == "empty":
        return D.enc_seq(sm2, D.enc_bits(b""))
    if shape == "curve-p256":
        return D.enc_seq(D.enc_seq(D.enc_oid(D.OID_EC_PUBLIC_KEY), D.enc_oid(bytes.fromhex("2A8648CE3D030107"))), D.enc_bits(b"\x04" + x + y))
    if shape == "no-curve":
        return D.enc_seq(D.enc_seq(D.enc_oid(D.OID_EC_PUBLIC_KEY)), D.enc_bits(b"\x04" + x + y))
    if shape == "alg-unknown":
        return D.enc_seq(D.enc_seq(D.enc_oid(bytes.fromhex("2A811CCF55018767")), D.enc_oid(D.OID_SM2)), D.enc_bits(b"\x04" + x + y))
    raise KeyError(shape)


SPKI_SHAPES = ["off-curve", "off-curve-x", "all-zero", "no-prefix", "prefix-05", "short", "long", "empty", "curve-p256", "no-curve", "alg-unknown"]


def tbs(serial, issuer, not_before, not_after, subject, pub, exts=(), version=2, alg=None, spki_der=None):
    items = []
    if version is not None and version != 0:
        items.append(D.enc_explicit(0, D.enc_uint(version)))
    items += [D.enc_uint(serial), alg or ALG, issuer, D.enc_seq(enc_time(not_before), enc_time(not_after)), subject, spki_der or spki(pub)]
    if exts:
        items.append(D.enc_explicit(3, D.enc_seq(*exts)))
    return D.enc_seq(*items)


def _det_k(d, data):
    k = int.from_bytes(hashlib.sha256(b"verif-k" + M.i2b(d) + data).digest(), "big") % (M.N - 1) + 1
    return k


import functools


@functools.lru_cache(maxsize=8192)
def sign_blob(d, pub, data, ident=M.DEFAULT_ID):
    """DER SM2 signature of data (Z || data hashed with SM3) by key d, deterministic nonce"""
    e = M.b2i(M.digest_for_sign(pub, ident, data))
    k = _det_k(d, data)
    while True:
        rs = M.sign_with_k(d, e, k)
        if rs:
            return D.enc_sig(*rs)
        k = k % (M.N - 1) + 1


def cert(tbs_der, issuer_d, issuer_pub, bad_sig=None, alg=None):
    sig = sign_blob(issuer_d, issuer_pub, tbs_der)
    if bad_sig == "flip":
        b = bytearray(sig); b[-1] ^= 1; sig = bytes(b)
    return D.enc_seq(tbs_der, alg or ALG, D.enc_bits(sig))


def pem(label, der):
    b = base64.b64encode(der).decode()
    return ("-----BEGIN %s-----\n" % label + "\n".join(b[i:i + 64] for i in range(0, len(b), 64)) + "\n-----END %s-----\n" % label).encode()
