"""ZUC-128 (GM/T 0001.1, 3GPP TS 35.221/35.222) and ZUC-256 (2018 specification) written from the specifications.

  keystream generators, 128-EEA3, 128-EIA3 (as "MAC over (key, iv, bit string)"), ZUC-256 MAC with 32/64/128-bit tags.

Nothing here is copied from the library: the S-boxes are *generated* from their published algebraic description
(S0: three-round Feistel over 4-bit boxes P1,P2,P3 followed by a rotation by 5; S1: affine image of the inverse in
GF(2^8) modulo x^8+x^7+x^3+x+1) and the whole model is validated at import time against the published test sets
(GM/T 0001.1 keystream, 3GPP EEA3/EIA3 implementor's test data sets 1,2,4 / 1,?,5 as reproduced in
/repo/tests/zuctest.c, and the ZUC-256 document's keystream and tag vectors).
"""

M32 = 0xFFFFFFFF
M31 = 0x7FFFFFFF


def _make_sboxes():
    p1 = [9, 15, 0, 14, 15, 15, 2, 10, 0, 4, 0, 12, 7, 5, 3, 9]
    p2 = [8, 13, 6, 5, 7, 0, 12, 4, 11, 1, 14, 10, 15, 3, 9, 2]
    p3 = [2, 6, 10, 6, 0, 13, 10, 15, 3, 3, 13, 5, 0, 9, 12, 13]
    s0 = []
    for x in range(256):
        x1, x2 = x >> 4, x & 15
        a = x1 ^ p1[x2]
        b = x2 ^ p2[a]
        c = a ^ p3[b]
        y = (c << 4) | b
        s0.append(((y << 5) | (y >> 3)) & 0xFF)

    def gmul(a, b):
        r = 0
        while b:
            if b & 1:
                r ^= a
            a <<= 1
            if a & 0x100:
                a ^= 0x18B
            b >>= 1
        return r
    inv = [0] * 256
    for a in range(1, 256):
        if inv[a]:
            continue
        for b in range(1, 256):
            if gmul(a, b) == 1:
                inv[a], inv[b] = b, a
                break
    cols = [0x97, 0x3E, 0x6D, 0xCB, 0xEE, 0xDD, 0xBB, 0x77]     # images of x^0..x^7 under the linear part
    s1 = []
    for x in range(256):
        v, r = inv[x], 0x55
        for i in range(8):
            if (v >> i) & 1:
                r ^= cols[i]
        s1.append(r)
    assert sorted(s0) == list(range(256)) and sorted(s1) == list(range(256))
    return s0, s1


S0, S1 = _make_sboxes()
D128 = [0x44D7, 0x26BC, 0x626B, 0x135E, 0x5789, 0x35E2, 0x7135, 0x09AF, 0x4D78, 0x2F13, 0x6BC4, 0x1AF1, 0x5E26, 0x3C4D, 0x789A, 0x47AC]
D256 = {
    0:   [0x22, 0x2F, 0x24, 0x2A, 0x6D, 0x40, 0x40, 0x40, 0x40, 0x40, 0x40, 0x40, 0x40, 0x52, 0x10, 0x30],
    32:  [0x22, 0x2F, 0x25, 0x2A, 0x6D, 0x40, 0x40, 0x40, 0x40, 0x40, 0x40, 0x40, 0x40, 0x52, 0x10, 0x30],
    64:  [0x23, 0x2F, 0x24, 0x2A, 0x6D, 0x40, 0x40, 0x40, 0x40, 0x40, 0x40, 0x40, 0x40, 0x52, 0x10, 0x30],
    128: [0x23, 0x2F, 0x25, 0x2A, 0x6D, 0x40, 0x40, 0x40, 0x40, 0x40, 0x40, 0x40, 0x40, 0x52, 0x10, 0x30],
}


def _rot31(a, k):
    return ((a << k) | (a >> (31 - k))) & M31


def _rot32(a, k):
    return ((a << k) | (a >> (32 - k))) & M32


def _add31(a, b):
    c = a + b
    return (c & M31) + (c >> 31)


class Zuc:
    """The LFSR / bit reorganisation / F core common to ZUC-128 and ZUC-256."""

    def __init__(self, lfsr):
        self.s = list(lfsr)
        self.r1 = self.r2 = 0
        for _ in range(32):
            x0, x1, x2, _x3 = self._br()
            w = self._f(x0, x1, x2)
            self._lfsr(w >> 1)
        x0, x1, x2, _x3 = self._br()
        self._f(x0, x1, x2)          # output discarded
        self._lfsr(None)

    @classmethod
    def from_state(cls, lfsr, r1, r2):
        """A generator in work mode at an explicit state (16 cells in [1, 2^31-1], R1, R2): no initialisation rounds."""
        z = cls.__new__(cls)
        z.s = list(lfsr)
        z.r1, z.r2 = r1, r2
        return z

    def _br(self):
        s = self.s
        return (((s[15] & 0x7FFF8000) << 1) | (s[14] & 0xFFFF),
                ((s[11] & 0xFFFF) << 16) | (s[9] >> 15),
                ((s[7] & 0xFFFF) << 16) | (s[5] >> 15),
                ((s[2] & 0xFFFF) << 16) | (s[0] >> 15))

    def _f(self, x0, x1, x2):
        w = ((x0 ^ self.r1) + self.r2) & M32
        w1 = (self.r1 + x1) & M32
        w2 = self.r2 ^ x2
        a = ((w1 << 16) | (w2 >> 16)) & M32
        b = ((w2 << 16) | (w1 >> 16)) & M32
        u = a ^ _rot32(a, 2) ^ _rot32(a, 10) ^ _rot32(a, 18) ^ _rot32(a, 24)
        v = b ^ _rot32(b, 8) ^ _rot32(b, 14) ^ _rot32(b, 22) ^ _rot32(b, 30)
        self.r1 = (S0[u >> 24] << 24) | (S1[(u >> 16) & 0xFF] << 16) | (S0[(u >> 8) & 0xFF] << 8) | S1[u & 0xFF]
        self.r2 = (S0[v >> 24] << 24) | (S1[(v >> 16) & 0xFF] << 16) | (S0[(v >> 8) & 0xFF] << 8) | S1[v & 0xFF]
        return w

    def _lfsr(self, u):
        s = self.s
        v = s[0]
        v = _add31(v, _rot31(s[0], 8))
        v = _add31(v, _rot31(s[4], 20))
        v = _add31(v, _rot31(s[10], 21))
        v = _add31(v, _rot31(s[13], 17))
        v = _add31(v, _rot31(s[15], 15))
        if u is not None:
            v = _add31(v, u)
        if v == 0:
            v = M31
        s.pop(0)
        s.append(v)

    def word(self):
        x0, x1, x2, x3 = self._br()
        z = self._f(x0, x1, x2) ^ x3
        self._lfsr(None)
        return z

    def words(self, n):
        return [self.word() for _ in range(n)]


P31 = M31          # the LFSR works in GF(2^31 - 1); the residue 0 is stored as 2^31 - 1


def feedback(cells):
    """residue (0..p-1) of the work-mode feedback 2^15 s15 + 2^17 s13 + 2^21 s10 + 2^20 s4 + (1 + 2^8) s0 for a 16-cell state"""
    return ((cells[15] << 15) + (cells[13] << 17) + (cells[10] << 21) + (cells[4] << 20) + 257 * cells[0]) % P31


def step_back(cells):
    """the work-mode LFSR state one step earlier (the recurrence is invertible: s0 is solved from s16)"""
    t = cells
    rest = ((t[14] << 15) + (t[12] << 17) + (t[9] << 21) + (t[3] << 20)) % P31
    x = ((t[15] - rest) * pow(257, -1, P31)) % P31
    return [x or P31] + list(t[:15])


def aim_feedback(cells, target):
    """cells with s0 replaced so that the next feedback has the residue `target`"""
    c = list(cells)
    rest = ((c[15] << 15) + (c[13] << 17) + (c[10] << 21) + (c[4] << 20)) % P31
    c[0] = (((target - rest) * pow(257, -1, P31)) % P31) or P31
    return c


def zuc128(key, iv):
    assert len(key) == 16 and len(iv) == 16
    return Zuc([(key[i] << 23) | (D128[i] << 8) | iv[i] for i in range(16)])


def zuc256(key, iv, macbits=0):
    """iv: 23 bytes = IV0..IV16 (8 bit each) followed by IV17..IV24 (6 bit each) packed big-endian into 6 bytes."""
    assert len(key) == 32 and len(iv) == 23 and macbits in D256
    K, d = key, D256[macbits]
    tail = int.from_bytes(iv[17:], "big")
    IV = list(iv[:17]) + [(tail >> (6 * (7 - i))) & 0x3F for i in range(8)]

    def mk(a, b, c, e):
        return (a << 23) | (b << 16) | (c << 8) | e
    s = [mk(K[0], d[0], K[21], K[16]), mk(K[1], d[1], K[22], K[17]), mk(K[2], d[2], K[23], K[18]), mk(K[3], d[3], K[24], K[19]),
         mk(K[4], d[4], K[25], K[20]), mk(IV[0], d[5] | IV[17], K[5], K[26]), mk(IV[1], d[6] | IV[18], K[6], K[27]),
         mk(IV[10], d[7] | IV[19], K[7], IV[2]), mk(K[8], d[8] | IV[20], IV[3], IV[11]), mk(K[9], d[9] | IV[21], IV[12], IV[4]),
         mk(IV[5], d[10] | IV[22], K[10], K[28]), mk(K[11], d[11] | IV[23], IV[6], IV[13]), mk(K[12], d[12] | IV[24], IV[7], IV[14]),
         mk(K[13], d[13], IV[15], IV[8]), mk(K[14], d[14] | (K[31] >> 4), IV[16], IV[9]), mk(K[15], d[15] | (K[31] & 0xF), K[30], K[29])]
    return Zuc(s)


def stream_bytes(z, n):
    """first n bytes of the key stream (words big-endian)"""
    w = z.words((n + 3) // 4)
    return b"".join(x.to_bytes(4, "big") for x in w)[:n]


def xor_bytes(a, b):
    n = len(a)
    return (int.from_bytes(a, "big") ^ int.from_bytes(b[:n], "big")).to_bytes(n, "big") if n else b""


# --- 128-EEA3 / 128-EIA3 --------------------------------------------------

def eea3_iv(count, bearer, direction):
    iv = bytearray(16)
    iv[0:4] = count.to_bytes(4, "big")
    iv[4] = ((bearer << 3) | ((direction & 1) << 2)) & 0xFF
    iv[8:16] = iv[0:8]
    return bytes(iv)


def eea3(key, count, bearer, direction, data, nbits):
    """data: ceil(nbits/8) bytes (bit stream, most significant bit first). Returns as many bytes, bits beyond nbits zero."""
    nbytes = (nbits + 7) // 8
    assert len(data) >= nbytes
    out = bytearray(xor_bytes(data[:nbytes], stream_bytes(zuc128(key, eea3_iv(count, bearer, direction)), nbytes)))
    if nbits % 8:
        out[-1] &= (0xFF << (8 - nbits % 8)) & 0xFF
    return bytes(out)


def eia3_iv(count, bearer, direction):
    iv = bytearray(16)
    iv[0:4] = count.to_bytes(4, "big")
    iv[4] = (bearer << 3) & 0xFF
    iv[8:16] = iv[0:8]
    iv[8] ^= (direction & 1) << 7
    iv[14] ^= (direction & 1) << 7
    return bytes(iv)


def _bits_set(data, nbits):
    for i in range(nbits):
        if data[i >> 3] & (0x80 >> (i & 7)):
            yield i


def mac128_len(nbits):
    return (nbits + 31) // 32 + 2


def mac128(key, iv, data, nbits):
    """128-EIA3 core for an arbitrary IV: T = xor of z[i..i+31] over set bits i, xor z[LENGTH..], xor z[32(L-1)..]"""
    return mac128_words(zuc128(key, iv).words(mac128_len(nbits)), data, nbits)


def mac128_words(words, data, nbits):
    """the same over an explicit key stream of mac128_len(nbits) words"""
    L = mac128_len(nbits)
    assert len(words) == L
    z = int.from_bytes(b"".join(w.to_bytes(4, "big") for w in words), "big")
    tot = 32 * L
    t = 0
    for i in _bits_set(data, nbits):
        t ^= (z >> (tot - 32 - i)) & M32
    t ^= (z >> (tot - 32 - nbits)) & M32
    t ^= z & M32
    return t


def eia3(key, count, bearer, direction, data, nbits):
    return mac128(key, eia3_iv(count, bearer, direction), data, nbits)


# --- ZUC-256 MAC ------------------------------------------------------------

def mac256_len(nbits, macbits):
    return (nbits + 31) // 32 + 2 * (macbits // 32)


def mac256(key, iv, data, nbits, macbits):
    return mac256_words(zuc256(key, iv, macbits).words(mac256_len(nbits, macbits)), data, nbits, macbits)


def mac256_words(words, data, nbits, macbits):
    assert macbits in (32, 64, 128)
    L = mac256_len(nbits, macbits)
    assert len(words) == L
    z = int.from_bytes(b"".join(w.to_bytes(4, "big") for w in words), "big")
    tot = 32 * L
    mask = (1 << macbits) - 1
    t = z >> (tot - macbits)
    base = tot - 2 * macbits
    for i in _bits_set(data, nbits):
        t ^= (z >> (base - i)) & mask
    t ^= (z >> (base - nbits)) & mask
    return t.to_bytes(macbits // 8, "big")


# ---------------------------------------------------------------------------

def _selftest():
    H = bytes.fromhex
    # GM/T 0001.1 appendix: key stream words z1, z2
    assert zuc128(b"\0" * 16, b"\0" * 16).words(2) == [0x27bede74, 0x018082da]
    assert zuc128(b"\xff" * 16, b"\xff" * 16).words(2) == [0x0657cfa0, 0x7096398b]
    z = zuc128(H("3d4c4be96a82fdaeb58f641db17b455b"), H("84319aa8de6915ca1f6bda6bfbd8c766"))
    assert z.words(2) == [0x14f1c272, 0x3279c419]
    # 3GPP test set 4 of ZUC: 2000th word
    z = zuc128(H("4d320bfad4c285bfd6b8bd00f39d8b41"), H("52959daba0bf176ece2dc315049eb574"))
    w = z.words(2000)
    assert w[0] == 0xed4400e7 and w[1] == 0x0633e5c5 and w[1999] == 0x7a574cdb
    # 128-EEA3 test set 1 (193 bits) and 2 (800 bits)
    k = H("173d14ba5003731d7a60049470f00a29")
    ibs = H("6cf65340735552ab0c9752fa6f9025fe0bd675d9005875b200000000")
    obs = H("a6c85fc66afb8533aafc2518dfe784940ee1e4b030238cc800000000")
    assert eea3(k, 0x66035492, 0x0F, 0, ibs, 0xC1) == obs[:25]
    k = H("e5bd3ea0eb55ade866c6ac58bd54302a")
    ibs = H("14a8ef693d678507bbe7270a7f67ff5006c3525b9807e467c4e56000ba338f5d429559036751822246c80d3b38f07f4be2d8ff5805f51322"
            "29bde93bbbdcaf382bf1ee972fbf9977bada8945847a2a6c9ad34a667554e04d1f7fa2c33241bd8f01ba220d")
    obs = H("131d43e0dea1be5c5a1bfd971d852cbf712d7b4f57961fea3208afa8bca433f456ad09c7417e58bc69cf8866d1353f74865e80781d202dfb"
            "3ecff7fcbc3b190fe82a204ed0e350fc0f6f2613b2f2bca6df5a473a57a4a00d985ebad880d6f23864a07b01")
    assert eea3(k, 0x56823, 0x18, 1, ibs, 0x320) == obs
    # 128-EIA3 test set 1 (1 bit) and 3GPP set 3 (577 bits)
    assert eia3(b"\0" * 16, 0, 0, 0, b"\0", 1) == 0xc8a9595e
    k = H("c9e6cec4607c72db000aefa88385ab0a")
    m = H("983b41d47d780c9e1ad11d7eb70391b1de0b35da2dc62f83e7b78d6306ca0ea07e941b7be91348f9fcb170e2217fecd97f9f68adb16e5d7d"
          "21e569d280ed775cebde3f4093c5388100000000")
    assert eia3(k, 0xa94059da, 0x0a, 1, m, 0x241) == 0xfae8ff0b
    # ZUC-256 key stream (all-zero and all-one key/iv, 20 words each)
    assert zuc256(b"\0" * 32, b"\0" * 23).words(20) == [
        0x58d03ad6, 0x2e032ce2, 0xdafc683a, 0x39bdcb03, 0x52a2bc67, 0xf1b7de74, 0x163ce3a1, 0x01ef5558, 0x9639d75b, 0x95fa681b,
        0x7f090df7, 0x56391ccc, 0x903b7612, 0x744d544c, 0x17bc3fad, 0x8b163b08, 0x21787c0b, 0x97775bb8, 0x4943c6bb, 0xe8ad8afd]
    assert zuc256(b"\xff" * 32, b"\xff" * 23).words(20) == [
        0x3356cbae, 0xd1a1c18b, 0x6baa4ffe, 0x343f777c, 0x9e15128f, 0x251ab65b, 0x949f7b26, 0xef7157f2, 0x96dd2fa9, 0xdf95e3ee,
        0x7a5be02e, 0xc32ba585, 0x505af316, 0xc2f9ded2, 0x7cdbd935, 0xe441ce11, 0x15fd0a80, 0xbb7aef67, 0x68989416, 0xb8fac8c2]
    # ZUC-256 MAC vectors: (key/iv fill, message, tag32, tag64, tag128)
    for fill, msg, t32, t64, t128 in (
            (0x00, b"\0" * 50, "9b972a74", "673e54990034d38c", "d85e54bbcb9600967084c952a1654b26"),
            (0x00, b"\x11" * 500, "8754f5cf", "130dc225e72240cc", "df1e8307b31cc62beca1ac6f8190c22f"),
            (0xff, b"\0" * 50, "1f3079b4", "8c71394d39957725", "a35bb274b567c48b28319f111af34fbd"),
            (0xff, b"\x11" * 500, "5c7c8b88", "ea1dee544bb6223b", "3a83b554be408ca5494124ed9d473205")):
        k, iv = bytes([fill]) * 32, bytes([fill]) * 23
        assert mac256(k, iv, msg, 8 * len(msg), 32).hex() == t32
        assert mac256(k, iv, msg, 8 * len(msg), 64).hex() == t64
        assert mac256(k, iv, msg, 8 * len(msg), 128).hex() == t128


_selftest()
