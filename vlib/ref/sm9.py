"""Reference model of SM9 (GM/T 0044-2016) on Python integers.

Written from the standard; shares no code, formulas-as-code or tables with the
library.  Contents:

* the BN curve parameters, re-derived from the standard's parameter t,
* the extension tower  Fp2 = Fp[u]/(u^2+2),  Fp4 = Fp2[v]/(v^2-u),
  Fp12 = Fp4[w]/(w^3-v)  with schoolbook formulas,
* a second, structurally different model of Fp12 as  Fp[w]/(w^12+2)
  (u = w^6, v = w^3) used to validate the tower model and for Frobenius maps,
* affine group arithmetic on  E: y^2 = x^3 + 5  over Fp  (G1)  and on the twist
  E': y^2 = x^3 + 5u  over Fp2  (G2),
* H1, H2, KDF, MAC, key extraction, signature, KEM/encryption and key-exchange
  value computations.

There is deliberately NO Miller loop here: the absolute value of the pairing is
anchored to the value of e(P1, Ppub-s) printed in the worked example of
GM/T 0044.2 Annex A:  E0 = e(P1, P2) = e(P1, [ks]P2)^(1/ks).  Every other
pairing value e([a]P1, [b]P2) then follows from bilinearity as E0^(ab).

Element conventions (plain integers, NOT Montgomery):
  Fp2  = (a0, a1)          a0 + a1 u
  Fp4  = (A0, A1)          A0 + A1 v      (Ai in Fp2)
  Fp12 = (C0, C1, C2)      C0 + C1 w + C2 w^2   (Ci in Fp4)
  flat = 12 ints [c000, c001, c010, c011, c100, ...] index = 4*k + 2*j + i for
         the coefficient of u^i v^j w^k.
The standard writes elements highest coefficient first; `fp12_to_bytes`
produces that order.
"""
import hashlib
import hmac as _hmac

# --- parameters (GM/T 0044.5) -------------------------------------------------
T = 0x600000000058F98A
P = 36 * T ** 4 + 36 * T ** 3 + 24 * T ** 2 + 6 * T + 1
N = 36 * T ** 4 + 36 * T ** 3 + 18 * T ** 2 + 6 * T + 1
TR = 6 * T ** 2 + 1
B = 5
assert P == 0xB640000002A3A6F1D603AB4FF58EC74521F2934B1A7AEEDBE56F9B27E351457D
assert N == 0xB640000002A3A6F1D603AB4FF58EC74449F2934B18EA8BEEE56EE19CD69ECF25
assert P + 1 - TR == N

P1 = (0x93DE051D62BF718FF5ED0704487D01D6E1E4086909DC3280E8C4E4817C66DDDD,
      0x21FE8DDA4F21E607631065125C395BBC1C1C00CBFA6024350C464CD70A3EA616)
# the standard prints (x1, x0): high coefficient first
P2 = ((0x3722755292130B08D2AAB97FD34EC120EE265948D19C17ABF9B7213BAF82D65B,
       0x85AEF3D078640C98597B6027B441A01FF1DD2C190F5E93C454806C11D8806141),
      (0xA7CF28D519BE3DA65F3170153D278FF247EFBA98A71A08116215BBA5C999A7C7,
       0x17509B092E845C1266BA0D262CBEE6ED0736A96FA347C8BD856DC76B84EBEB96))

HID_SIGN, HID_EXCH, HID_ENC = 1, 2, 3


# --- Fp2 ----------------------------------------------------------------------
F2_ZERO = (0, 0)
F2_ONE = (1, 0)


def f2(a0, a1=0):
    return (a0 % P, a1 % P)


def f2_add(a, b):
    return ((a[0] + b[0]) % P, (a[1] + b[1]) % P)


def f2_sub(a, b):
    return ((a[0] - b[0]) % P, (a[1] - b[1]) % P)


def f2_neg(a):
    return ((-a[0]) % P, (-a[1]) % P)


def f2_mul(a, b):
    # (a0 + a1 u)(b0 + b1 u), u^2 = -2
    return ((a[0] * b[0] - 2 * a[1] * b[1]) % P, (a[0] * b[1] + a[1] * b[0]) % P)


def f2_sqr(a):
    return f2_mul(a, a)


def f2_mul_fp(a, k):
    return (a[0] * k % P, a[1] * k % P)


def f2_mul_u(a):
    """a * u"""
    return ((-2 * a[1]) % P, a[0] % P)


def f2_conj(a):
    return (a[0] % P, (-a[1]) % P)


def f2_inv(a):
    n = (a[0] * a[0] + 2 * a[1] * a[1]) % P
    if n == 0:
        raise ZeroDivisionError("fp2 inverse of zero")
    ni = pow(n, -1, P)
    return (a[0] * ni % P, (-a[1]) * ni % P)


def f2_half(a):
    h = pow(2, -1, P)
    return (a[0] * h % P, a[1] * h % P)


def f2_pow(a, e):
    r = F2_ONE
    for bit in bin(e)[2:]:
        r = f2_mul(r, r)
        if bit == "1":
            r = f2_mul(r, a)
    return r


# --- Fp4 ----------------------------------------------------------------------
F4_ZERO = (F2_ZERO, F2_ZERO)
F4_ONE = (F2_ONE, F2_ZERO)


def f4_add(a, b):
    return (f2_add(a[0], b[0]), f2_add(a[1], b[1]))


def f4_sub(a, b):
    return (f2_sub(a[0], b[0]), f2_sub(a[1], b[1]))


def f4_neg(a):
    return (f2_neg(a[0]), f2_neg(a[1]))


def f4_mul(a, b):
    # (A0 + A1 v)(B0 + B1 v), v^2 = u
    return (f2_add(f2_mul(a[0], b[0]), f2_mul_u(f2_mul(a[1], b[1]))),
            f2_add(f2_mul(a[0], b[1]), f2_mul(a[1], b[0])))


def f4_sqr(a):
    return f4_mul(a, a)


def f4_mul_v(a):
    """a * v"""
    return (f2_mul_u(a[1]), a[0])


def f4_mul_fp(a, k):
    return (f2_mul_fp(a[0], k), f2_mul_fp(a[1], k))


def f4_mul_fp2(a, b):
    return (f2_mul(a[0], b), f2_mul(a[1], b))


def f4_conj(a):
    return (a[0], f2_neg(a[1]))


def f4_inv(a):
    # 1/(A0 + A1 v) = (A0 - A1 v)/(A0^2 - u A1^2)
    n = f2_sub(f2_sqr(a[0]), f2_mul_u(f2_sqr(a[1])))
    ni = f2_inv(n)
    return (f2_mul(a[0], ni), f2_neg(f2_mul(a[1], ni)))


def f4_half(a):
    return (f2_half(a[0]), f2_half(a[1]))


# --- Fp12 (tower) ----------------------------------------------------------------
F12_ZERO = (F4_ZERO, F4_ZERO, F4_ZERO)
F12_ONE = (F4_ONE, F4_ZERO, F4_ZERO)


def f12_add(a, b):
    return tuple(f4_add(x, y) for x, y in zip(a, b))


def f12_sub(a, b):
    return tuple(f4_sub(x, y) for x, y in zip(a, b))


def f12_neg(a):
    return tuple(f4_neg(x) for x in a)


def f12_mul(a, b):
    # (a0 + a1 w + a2 w^2)(b0 + b1 w + b2 w^2), w^3 = v
    a0, a1, a2 = a
    b0, b1, b2 = b
    c0 = f4_add(f4_mul(a0, b0), f4_mul_v(f4_add(f4_mul(a1, b2), f4_mul(a2, b1))))
    c1 = f4_add(f4_add(f4_mul(a0, b1), f4_mul(a1, b0)), f4_mul_v(f4_mul(a2, b2)))
    c2 = f4_add(f4_add(f4_mul(a0, b2), f4_mul(a1, b1)), f4_mul(a2, b0))
    return (c0, c1, c2)


def f12_sqr(a):
    return f12_mul(a, a)


def f12_inv(a):
    a0, a1, a2 = a
    t0 = f4_sub(f4_sqr(a0), f4_mul_v(f4_mul(a1, a2)))
    t1 = f4_sub(f4_mul_v(f4_sqr(a2)), f4_mul(a0, a1))
    t2 = f4_sub(f4_sqr(a1), f4_mul(a0, a2))
    d = f4_add(f4_mul(a0, t0), f4_mul_v(f4_add(f4_mul(a2, t1), f4_mul(a1, t2))))
    di = f4_inv(d)
    return (f4_mul(t0, di), f4_mul(t1, di), f4_mul(t2, di))


def f12_flat(a):
    """12 coefficients, index 4*k + 2*j + i for u^i v^j w^k."""
    out = []
    for k in range(3):
        for j in range(2):
            for i in range(2):
                out.append(a[k][j][i] % P)
    return out


def f12_unflat(c):
    c = [int(x) % P for x in c]
    return tuple(((c[4 * k], c[4 * k + 1]), (c[4 * k + 2], c[4 * k + 3])) for k in range(3))


# --- Fp12 as Fp[w]/(w^12 + 2): the second model -------------------------------------
# u = w^6, v = w^3  =>  u^i v^j w^k = w^(6i + 3j + k)

def f12_to_poly(a):
    c = [0] * 12
    for k in range(3):
        for j in range(2):
            for i in range(2):
                c[6 * i + 3 * j + k] = a[k][j][i] % P
    return c


def f12_from_poly(c):
    return tuple(tuple(tuple(c[6 * i + 3 * j + k] % P for i in range(2)) for j in range(2)) for k in range(3))


def poly_mul(a, b):
    t = [0] * 23
    for i, x in enumerate(a):
        if x:
            for j, y in enumerate(b):
                t[i + j] += x * y
    # w^12 = -2
    return [(t[i] - 2 * (t[i + 12] if i + 12 < 23 else 0)) % P for i in range(12)]


def poly_pow(a, e):
    r = [1] + [0] * 11
    for bit in bin(e)[2:]:
        r = poly_mul(r, r)
        if bit == "1":
            r = poly_mul(r, a)
    return r


def f12_pow(a, e):
    """a^e for e >= 0 (square and multiply in the polynomial model)."""
    return f12_from_poly(poly_pow(f12_to_poly(a), e))


def f12_pow_tower(a, e):
    r = F12_ONE
    for bit in bin(e)[2:]:
        r = f12_mul(r, r)
        if bit == "1":
            r = f12_mul(r, a)
    return r


_FROB = {}


def _frob_consts(n):
    """w^(p^n) = g * w^r with r = p^n mod 12, g = (-2)^((p^n - r)/12) in Fp."""
    if n not in _FROB:
        q = P ** n
        r = q % 12
        g = pow(-2 % P, (q - r) // 12, P)
        _FROB[n] = (g, r)
    return _FROB[n]


def f12_frobenius(a, n=1):
    """a^(p^n), from first principles: coefficients are fixed, w maps to w^(p^n)."""
    g, r = _frob_consts(n)
    c = f12_to_poly(a)
    out = [0] * 12
    gk = 1
    for k in range(12):
        # (g w^r)^k = g^k w^(rk)
        e = r * k
        coef = c[k] * gk % P
        q, m = divmod(e, 12)
        coef = coef * pow(-2 % P, q, P) % P
        out[m] = (out[m] + coef) % P
        gk = gk * g % P
    return f12_from_poly(out)


def f4_frobenius(a, n=1):
    """Frobenius on the subfield Fp4 (embedded as C0)."""
    r = f12_frobenius((a, F4_ZERO, F4_ZERO), n)
    assert r[1] == F4_ZERO and r[2] == F4_ZERO
    return r[0]


def f2_frobenius(a, n=1):
    r = f4_frobenius((a, F2_ZERO), n)
    assert r[1] == F2_ZERO
    return r[0]


# --- byte conventions of the standard (highest coefficient first) --------------------

def i2b(v, n=32):
    return int(v).to_bytes(n, "big")


def b2i(b):
    return int.from_bytes(b, "big")


def f2_to_bytes(a):
    return i2b(a[1]) + i2b(a[0])


def f2_from_bytes(b):
    return (b2i(b[32:64]), b2i(b[0:32]))


def f4_to_bytes(a):
    return f2_to_bytes(a[1]) + f2_to_bytes(a[0])


def f4_from_bytes(b):
    return (f2_from_bytes(b[64:128]), f2_from_bytes(b[0:64]))


def f12_to_bytes(a):
    return f4_to_bytes(a[2]) + f4_to_bytes(a[1]) + f4_to_bytes(a[0])


def f12_from_bytes(b):
    return (f4_from_bytes(b[256:384]), f4_from_bytes(b[128:256]), f4_from_bytes(b[0:128]))


def f12_from_hex_lines(s):
    """12 lines of 64 hex digits, highest coefficient first (as the standard prints them)."""
    b = bytes.fromhex("".join(s.split()))
    assert len(b) == 384
    return f12_from_bytes(b)


# --- G1: y^2 = x^3 + 5 over Fp, affine, None = infinity --------------------------------

def g1_on_curve(pt):
    if pt is None:
        return False
    x, y = pt
    return 0 <= x < P and 0 <= y < P and (y * y - x * x * x - B) % P == 0


def g1_neg(pt):
    return None if pt is None else (pt[0], (-pt[1]) % P)


def g1_add(a, b):
    if a is None:
        return b
    if b is None:
        return a
    x1, y1 = a
    x2, y2 = b
    if x1 == x2:
        if (y1 + y2) % P == 0:
            return None
        lam = 3 * x1 * x1 * pow(2 * y1, -1, P) % P
    else:
        lam = (y2 - y1) * pow(x2 - x1, -1, P) % P
    x3 = (lam * lam - x1 - x2) % P
    return (x3, (lam * (x1 - x3) - y1) % P)


def g1_dbl(a):
    return g1_add(a, a)


def g1_mul(k, pt):
    """[k]pt by left-to-right double-and-add on the integer k (k >= 0, NOT reduced mod N)."""
    acc = None
    if pt is None:
        return None
    for bit in bin(k)[2:]:
        acc = g1_add(acc, acc)
        if bit == "1":
            acc = g1_add(acc, pt)
    return acc


# --- G2: y^2 = x^3 + 5u over Fp2 ---------------------------------------------------------
B2 = (0, 5)


def g2_on_curve(pt):
    if pt is None:
        return False
    x, y = pt
    return f2_sub(f2_sqr(y), f2_add(f2_mul(f2_sqr(x), x), B2)) == F2_ZERO


def g2_neg(pt):
    return None if pt is None else (pt[0], f2_neg(pt[1]))


def g2_add(a, b):
    if a is None:
        return b
    if b is None:
        return a
    x1, y1 = a
    x2, y2 = b
    if x1 == x2:
        if f2_add(y1, y2) == F2_ZERO:
            return None
        lam = f2_mul(f2_mul_fp(f2_sqr(x1), 3), f2_inv(f2_add(y1, y1)))
    else:
        lam = f2_mul(f2_sub(y2, y1), f2_inv(f2_sub(x2, x1)))
    x3 = f2_sub(f2_sub(f2_sqr(lam), x1), x2)
    return (x3, f2_sub(f2_mul(lam, f2_sub(x1, x3)), y1))


def g2_dbl(a):
    return g2_add(a, a)


def g2_mul(k, pt):
    acc = None
    if pt is None:
        return None
    for bit in bin(k)[2:]:
        acc = g2_add(acc, acc)
        if bit == "1":
            acc = g2_add(acc, pt)
    return acc


def g1_octets(pt):
    return b"\x04" + i2b(pt[0]) + i2b(pt[1])


def g2_octets(pt):
    return b"\x04" + f2_to_bytes(pt[0]) + f2_to_bytes(pt[1])


# --- hash functions (GM/T 0044.2 5.4.2) -----------------------------------------------------

def sm3(data):
    return hashlib.new("sm3", data).digest()


def _hash_to_range(prefix, z, n=N):
    # hlen = 8 * ceil(5 * log2(n) / 32) = 320 bits for the 256-bit n
    hlen = 8 * -(-5 * n.bit_length() // 32)
    v = 256
    ha = b""
    for ct in range(1, -(-hlen // v) + 1):
        ha += sm3(bytes([prefix]) + z + ct.to_bytes(4, "big"))
    ha = ha[:hlen // 8]
    return b2i(ha) % (n - 1) + 1


def h1(ident, hid):
    return _hash_to_range(1, bytes(ident) + bytes([hid]))


def h2(msg, w_bytes):
    return _hash_to_range(2, bytes(msg) + bytes(w_bytes))


def ha_bytes(prefix, z):
    """The 40-byte Ha string (what sm9_z256_modn_from_hash consumes)."""
    return (sm3(bytes([prefix]) + z + b"\0\0\0\1") + sm3(bytes([prefix]) + z + b"\0\0\0\2"))[:40]


def from_hash(ha40):
    return b2i(ha40) % (N - 1) + 1


def kdf(z, klen):
    out = b""
    ct = 1
    while len(out) < klen:
        out += sm3(bytes(z) + ct.to_bytes(4, "big"))
        ct += 1
    return out[:klen]


def mac_std(k2, z):
    """MAC(K2, Z) = Hv(Z || K2)  (GM/T 0044.4 5.3.5)"""
    return sm3(bytes(z) + bytes(k2))


def mac_hmac(k2, z):
    """HMAC-SM3, what include/gmssl/sm9.h documents for C3."""
    return _hmac.new(bytes(k2), bytes(z), "sm3").digest()


# --- pairing anchor ---------------------------------------------------------------------------
# GM/T 0044.2 Annex A: ks and g = e(P1, Ppub-s) of the signature example (also in tests/sm9test.c)
STD_KS = 0x000130E78459D78545CB54C587E02CF480CE0B66340F319F348A1D5B1F2DC5F4
STD_G_SIGN = """
4E378FB5561CD0668F906B731AC58FEE25738EDF09CADC7A29C0ABC0177AEA6D
28B3404A61908F5D6198815C99AF1990C8AF38655930058C28C21BB539CE0000
38BFFE40A22D529A0C66124B2C308DAC9229912656F62B4FACFCED408E02380F
A01F2C8BEE81769609462C69C96AA923FD863E209D3CE26DD889B55E2E3873DB
67E0E0C2EED7A6993DCE28FE9AA2EF56834307860839677F96685F2B44D0911F
5A1AE172102EFD95DF7338DBC577C66D8D6C15E0A0158C7507228EFB078F42A6
1604A3FCFA9783E667CE9FCB1062C2A5C6685C316DDA62DE0548BAA6BA30038B
93634F44FA13AF76169F3CC8FBEA880ADAFF8475D5FD28A75DEB83C44362B439
B3129A75D31D17194675A1BC56947920898FBF390A5BF5D931CE6CBB3340F66D
4C744E69C4A2E1C8ED72F796D151A17CE2325B943260FC460B9F73CB57C9014B
84B87422330D7936EABA1109FA5A7A7181EE16F2438B0AEB2F38FD5F7554E57A
AAB9F06A4EEBA4323A7833DB202E4E35639D93FA3305AF73F0F071D7D284FCFB
"""
_E0 = None


def e0():
    """e(P1, P2), derived from the standard's printed e(P1, [ks]P2) by bilinearity."""
    global _E0
    if _E0 is None:
        g = f12_from_hex_lines(STD_G_SIGN)
        _E0 = f12_pow(g, pow(STD_KS, -1, N))
    return _E0


def pairing_of_logs(a, b):
    """e([a]P1, [b]P2) = E0^(ab mod N)"""
    return f12_pow(e0(), a * b % N)


# --- schemes (values only; encodings live in vlib/sm9io.py) -----------------------------------------

def sign_user_scalar(ks, ident):
    """t2 = ks * (H1(ID||hid) + ks)^-1 mod N, or None when t1 = 0."""
    t1 = (h1(ident, HID_SIGN) + ks) % N
    if t1 == 0:
        return None
    return ks * pow(t1, -1, N) % N


def enc_user_scalar(ke, ident, hid=HID_ENC):
    t1 = (h1(ident, hid) + ke) % N
    if t1 == 0:
        return None
    return ke * pow(t1, -1, N) % N


def sign_with_r(ks, ident, msg, r):
    """(h, S, w) of the signature made with randomness r; g = e(P1, [ks]P2) = E0^ks."""
    g = f12_pow(e0(), ks % N)
    w = f12_pow(g, r)
    h = h2(msg, f12_to_bytes(w))
    l = (r - h) % N
    if l == 0:
        return None
    ds = g1_mul(sign_user_scalar(ks, ident), P1)
    return h, g1_mul(l, ds), w


def kem_with_r(ke, ident, r, klen, hid=HID_ENC):
    """(C1, K, w): C1 = [r]([H1]P1 + [ke]P1), w = e([ke]P1, P2)^r = E0^(ke r)."""
    q = (h1(ident, hid) + ke) % N
    c1 = g1_mul(r * q % N, P1)
    w = f12_pow(e0(), ke * r % N)
    k = kdf(i2b(c1[0]) + i2b(c1[1]) + f12_to_bytes(w) + bytes(ident), klen)
    return c1, k, w


def exch_keys(ke, ida, idb, ra, rb, klen):
    """RA, RB and the shared key of GM/T 0044.3 for initiator A (ra) and responder B (rb)."""
    qa = (h1(ida, HID_EXCH) + ke) % N
    qb = (h1(idb, HID_EXCH) + ke) % N
    RA = g1_mul(ra * qb % N, P1)
    RB = g1_mul(rb * qa % N, P1)
    # g1 = e(RA, deB) = E0^(ra*ke), g2 = e(Ppube, P2)^rb = E0^(ke*rb), g3 = g1^rb
    g1 = f12_pow(e0(), ra * ke % N)
    g2 = f12_pow(e0(), rb * ke % N)
    g3 = f12_pow(g1, rb)
    z = bytes(ida) + bytes(idb) + i2b(RA[0]) + i2b(RA[1]) + i2b(RB[0]) + i2b(RB[1]) + \
        f12_to_bytes(g1) + f12_to_bytes(g2) + f12_to_bytes(g3)
    return RA, RB, kdf(z, klen), (g1, g2, g3)


# --- self-validation ------------------------------------------------------------------------------------

def _rand_f12(seed):
    out = []
    for i in range(12):
        out.append(b2i(hashlib.sha256(b"sm9-selftest-%d-%d" % (seed, i)).digest()) % P)
    return f12_unflat(out)


def _selftest():
    # generators are on their curves and have order N
    assert g1_on_curve(P1) and g2_on_curve(P2)
    assert g1_mul(N, P1) is None and g1_mul(N - 1, P1) == g1_neg(P1)
    assert g2_mul(N, P2) is None and g2_mul(N + 1, P2) == P2
    # tower model == polynomial model, inverses, Frobenius == p-th power
    a, b = _rand_f12(1), _rand_f12(2)
    ab = f12_mul(a, b)
    assert f12_to_poly(ab) == poly_mul(f12_to_poly(a), f12_to_poly(b))
    assert f12_from_poly(f12_to_poly(a)) == a and f12_unflat(f12_flat(a)) == a
    assert f12_mul(a, f12_inv(a)) == F12_ONE
    assert f4_mul(a[1], f4_inv(a[1])) == F4_ONE and f2_mul(a[0][1], f2_inv(a[0][1])) == F2_ONE
    assert f12_frobenius(a, 1) == f12_pow(a, P)
    assert f12_frobenius(f12_frobenius(a, 1), 1) == f12_frobenius(a, 2)
    assert f12_frobenius(f12_frobenius(a, 2), 1) == f12_frobenius(a, 3)
    assert f12_frobenius(f12_frobenius(a, 3), 3) == f12_frobenius(a, 6)
    assert f12_pow_tower(a, 0x1234567) == f12_pow(a, 0x1234567)
    assert f12_from_bytes(f12_to_bytes(a)) == a
    # GM/T 0044.2 Annex A (signature): ks -> Ppub-s, ds for "Alice", the printed g has order N
    ppubs = g2_mul(STD_KS, P2)
    assert ppubs == ((0x29DBA116152D1F786CE843ED24A3B573414D2177386A92DD8F14D65696EA5E32,
                      0x9F64080B3084F733E48AFF4B41B565011CE0711C5E392CFB0AB1B6791B94C408),
                     (0x41E00A53DDA532DA1A7CE027B7A46F741006E85F5CDFF0730E75C05FB4E3216D,
                      0x69850938ABEA0112B57329F447E3A0CBAD3E2FDB1A77F335E89E1408D0EF1C25))
    t2 = sign_user_scalar(STD_KS, b"Alice")
    assert h1(b"Alice", HID_SIGN) == 0x2ACC468C3926B0BDB2767E99FF26E084DE9CED8DBC7D5FBF418027B667862FAB
    assert g1_mul(t2, P1) == (0xA5702F05CF1315305E2D6EB64B0DEB923DB1A0BCF0CAFF90523AC8754AA69820,
                              0x78559A844411F9825C109F5EE3F52D720DD01785392A727BB1556952B2B013D3)
    g = f12_from_hex_lines(STD_G_SIGN)
    assert f12_pow(g, N) == F12_ONE and g != F12_ONE and e0() != F12_ONE
    assert f12_pow(e0(), STD_KS) == g
    # the standard's signature: r, h, S for M = "Chinese IBS standard"
    r = 0x00033C8616B06704813203DFD00965022ED15975C662337AED648835DC4B1CBE
    h, S, w = sign_with_r(STD_KS, b"Alice", b"Chinese IBS standard", r)
    assert h == 0x823C4B21E4BD2DFE1ED92C606653E996668563152FC33F55D7BFBB9BD9705ADB
    assert S == (0x73BF96923CE58B6AD0E13E9643A406D8EB98417C50EF1B29CEF9ADB48B6D598C,
                 0x856712F1C2E0968AB7769F42A99586AED139D5B8B3E15891827CC2ACED9BAA05)
    return True


_selftest()
