"""Reference model of SM2 (GB/T 32918) on Python integers.

Written from the standard; shares no code or tables with the library.
Points are affine tuples (x, y) or None for the point at infinity.
"""
import hashlib

P = 0xFFFFFFFEFFFFFFFFFFFFFFFFFFFFFFFFFFFFFFFF00000000FFFFFFFFFFFFFFFF
A = 0xFFFFFFFEFFFFFFFFFFFFFFFFFFFFFFFFFFFFFFFF00000000FFFFFFFFFFFFFFFC
B = 0x28E9FA9E9D9F5E344D5A9E4BCF6509A7F39789F515AB8F92DDBCBD414D940E93
N = 0xFFFFFFFEFFFFFFFFFFFFFFFFFFFFFFFF7203DF6B21C6052B53BBF40939D54123
GX = 0x32C4AE2C1F1981195F9904466A39C9948FE30BBFF2660BE1715A4589334C74C7
GY = 0xBC3736A2F4F6779C59BDCEE36B692153D0A9877CC62A474002DF32E52139F0A0
G = (GX, GY)
R256 = 1 << 256
DEFAULT_ID = b"1234567812345678"


def on_curve(pt):
    if pt is None:
        return False
    x, y = pt
    if not (0 <= x < P and 0 <= y < P):
        return False
    return (y * y - (x * x * x + A * x + B)) % P == 0


# --- Jacobian arithmetic (X, Y, Z), Z == 0 means infinity ---------------------

def _jdbl(pt):
    X, Y, Z = pt
    if Z == 0 or Y == 0:
        return (1, 1, 0)
    S = 4 * X * Y * Y % P
    M = (3 * X * X + A * Z * Z * Z * Z) % P
    X3 = (M * M - 2 * S) % P
    Y3 = (M * (S - X3) - 8 * Y * Y * Y * Y) % P
    Z3 = 2 * Y * Z % P
    return (X3, Y3, Z3)


def _jadd(p1, p2):
    X1, Y1, Z1 = p1
    X2, Y2, Z2 = p2
    if Z1 == 0:
        return p2
    if Z2 == 0:
        return p1
    Z1Z1 = Z1 * Z1 % P
    Z2Z2 = Z2 * Z2 % P
    U1 = X1 * Z2Z2 % P
    U2 = X2 * Z1Z1 % P
    S1 = Y1 * Z2 * Z2Z2 % P
    S2 = Y2 * Z1 * Z1Z1 % P
    if U1 == U2:
        if S1 == S2:
            return _jdbl(p1)
        return (1, 1, 0)
    H = (U2 - U1) % P
    Rr = (S2 - S1) % P
    H2 = H * H % P
    H3 = H * H2 % P
    V = U1 * H2 % P
    X3 = (Rr * Rr - H3 - 2 * V) % P
    Y3 = (Rr * (V - X3) - S1 * H3) % P
    Z3 = H * Z1 * Z2 % P
    return (X3, Y3, Z3)


def _to_affine(j):
    X, Y, Z = j
    if Z == 0:
        return None
    zi = pow(Z, -1, P)
    zi2 = zi * zi % P
    return (X * zi2 % P, Y * zi2 * zi % P)


def add(p1, p2):
    j1 = (1, 1, 0) if p1 is None else (p1[0], p1[1], 1)
    j2 = (1, 1, 0) if p2 is None else (p2[0], p2[1], 1)
    return _to_affine(_jadd(j1, j2))


def neg(pt):
    if pt is None:
        return None
    return (pt[0], (-pt[1]) % P)


def dbl(pt):
    return add(pt, pt)


def mul(k, pt):
    """[k]pt for any integer k >= 0 (plain double-and-add, left to right)."""
    if pt is None or k == 0:
        return None
    k %= N  # the group has prime order N
    if k == 0:
        return None
    base = (pt[0], pt[1], 1)
    acc = (1, 1, 0)
    for bit in bin(k)[2:]:
        acc = _jdbl(acc)
        if bit == "1":
            acc = _jadd(acc, base)
    return _to_affine(acc)


def mul_naive(k, pt):
    """Same without reducing k mod N first (used to cross-check mul and the group order)."""
    if pt is None or k == 0:
        return None
    base = (pt[0], pt[1], 1)
    acc = (1, 1, 0)
    for bit in bin(k)[2:]:
        acc = _jdbl(acc)
        if bit == "1":
            acc = _jadd(acc, base)
    return _to_affine(acc)


def sqrt_p(a):
    """Square root mod P (P = 3 mod 4) or None."""
    a %= P
    r = pow(a, (P + 1) // 4, P)
    return r if r * r % P == a else None


def lift_x(x, y_odd):
    if not 0 <= x < P:
        return None
    y = sqrt_p(x * x * x + A * x + B)
    if y is None:
        return None
    if (y & 1) != (1 if y_odd else 0):
        y = P - y
    return (x, y % P)


def i2b(v, n=32):
    return int(v).to_bytes(n, "big")


def b2i(b):
    return int.from_bytes(b, "big")


def sm3(data):
    return hashlib.new("sm3", data).digest()


def compute_z(pub, ident):
    """ZA = SM3(ENTL || ID || a || b || xG || yG || xA || yA), ENTL = bit length of ID (16 bit)."""
    entl = (len(ident) * 8) & 0xFFFF
    return sm3(entl.to_bytes(2, "big") + bytes(ident) + i2b(A) + i2b(B) + i2b(GX) + i2b(GY) + i2b(pub[0]) + i2b(pub[1]))


def digest_for_sign(pub, ident, msg):
    return sm3(compute_z(pub, ident) + bytes(msg))


def sign_with_k(d, e, k):
    """Returns (r, s) or None if this k must be rejected (r == 0, r + k == n, s == 0)."""
    e = e if isinstance(e, int) else b2i(e)
    kG = mul(k, G)
    if kG is None:
        return None
    r = (e + kG[0]) % N
    if r == 0 or (r + k) % N == 0 and r + k == N:
        return None
    if r + k == N:
        return None
    s = (pow(1 + d, -1, N) * (k - r * d)) % N
    if s == 0:
        return None
    return (r, s)


def verify_rs(pub, e, r, s):
    e = e if isinstance(e, int) else b2i(e)
    if not (1 <= r <= N - 1 and 1 <= s <= N - 1):
        return False
    if not on_curve(pub):
        return False
    t = (r + s) % N
    if t == 0:
        return False
    pt = add(mul(s, G), mul(t, pub))
    if pt is None:
        return False
    return (e + pt[0]) % N == r


def recover_k(d, r, s):
    """Given a signature made with private key d, the nonce used: k = s(1+d) + r d mod n."""
    return (s * (1 + d) + r * d) % N


def kdf(z, klen):
    out = b""
    ct = 1
    while len(out) < klen:
        out += sm3(bytes(z) + ct.to_bytes(4, "big"))
        ct += 1
    return out[:klen]


def encrypt_with_k(pub, msg, k):
    """Returns (C1 point, C3 hash, C2 bytes) or None if the KDF output is all zero."""
    C1 = mul(k, G)
    S = mul(k, pub)
    if C1 is None or S is None:
        return None
    x2, y2 = i2b(S[0]), i2b(S[1])
    t = kdf(x2 + y2, len(msg))
    if len(msg) and not any(t):
        return None
    C2 = bytes(a ^ b for a, b in zip(msg, t))
    C3 = sm3(x2 + bytes(msg) + y2)
    return (C1, C3, C2)


def decrypt(d, C1, C3, C2):
    """Returns plaintext bytes or None."""
    if C1 is None or not on_curve(C1):
        return None
    S = mul(d, C1)
    if S is None:
        return None
    x2, y2 = i2b(S[0]), i2b(S[1])
    t = kdf(x2 + y2, len(C2))
    if len(C2) and not any(t):
        return None
    M = bytes(a ^ b for a, b in zip(C2, t))
    if sm3(x2 + M + y2) != bytes(C3):
        return None
    return M


def encrypt_to_c1(d, C1, msg):
    """Ciphertext (C3, C2) that the owner of d decrypts to msg for an arbitrary curve point C1 (no nonce needed): what an
    encryptor whose [k]G happened to be C1 would have sent.  None when the KDF output is all zero."""
    S = mul(d, C1)
    x2, y2 = i2b(S[0]), i2b(S[1])
    t = kdf(x2 + y2, len(msg))
    if len(msg) and not any(t):
        return None
    return sm3(x2 + bytes(msg) + y2), bytes(a ^ b for a, b in zip(msg, t))


_SMALL = {}


def small_x_point(j):
    """j-th curve point (in order of x = 0, 1, 2, ...) ; x + p < 2^256 so the coordinate has a second, unreduced 32-byte encoding"""
    if "x" not in _SMALL:
        pts, x = [], 0
        while len(pts) < 64:
            for odd in (0, 1):
                q = lift_x(x, odd)
                if q is not None:
                    pts.append(q)
            x += 1
        _SMALL["x"] = pts
    return _SMALL["x"][j % 64]


def _pmulmod(a, b, f):
    """product of two polynomials of degree < 3 modulo the monic cubic x^3 + f[2]x^2 + f[1]x + f[0] over Fp (coefficients low first)"""
    r = [0] * 5
    for i, ai in enumerate(a):
        for k, bk in enumerate(b):
            r[i + k] = (r[i + k] + ai * bk) % P
    for dg in (4, 3):
        c = r[dg]
        if c:
            r[dg] = 0
            for t in range(3):
                r[dg - 3 + t] = (r[dg - 3 + t] - c * f[t]) % P
    return r[:3]


def small_y_point(j):
    """j-th curve point found with y = 0, 1, 2, ... (root of x^3 + ax + b - y^2 obtained from gcd(x^p - x, f) when it is linear)"""
    if "y" not in _SMALL:
        pts, y = [], 0
        while len(pts) < 24:
            f = [(B - y * y) % P, A % P, 0]
            # x^p mod f by square and multiply
            r, base, e = [1, 0, 0], [0, 1, 0], P
            while e:
                if e & 1:
                    r = _pmulmod(r, base, f)
                base = _pmulmod(base, base, f)
                e >>= 1
            g = [(r[0]) % P, (r[1] - 1) % P, r[2] % P]           # x^p - x mod f
            # gcd(f, g): one Euclid step suffices to detect a single root: reduce f by g while deg g >= 1
            a_, b_ = [f[0], f[1], f[2], 1], g
            def deg(q):
                d = len(q) - 1
                while d >= 0 and q[d] % P == 0:
                    d -= 1
                return d
            while deg(b_) >= 0:
                da, db = deg(a_), deg(b_)
                if da < db:
                    a_, b_ = b_, a_
                    continue
                inv = pow(b_[db], -1, P)
                c = a_[da] * inv % P
                a_ = [(a_[i] - (c * b_[i - (da - db)] if 0 <= i - (da - db) <= db else 0)) % P for i in range(len(a_))]
                if deg(a_) < db:
                    a_, b_ = b_, a_
            if deg(a_) == 1:
                x = (-a_[0]) * pow(a_[1], -1, P) % P
                if on_curve((x, y)):
                    pts.append((x, y))
                    if y:
                        pass
            y += 1
        _SMALL["y"] = pts
    return _SMALL["y"][j % 24]


def pub_of(d):
    return mul(d, G)


def _selftest():
    # GB/T 32918.2-2016 Annex A / GM/T 0003.5 example with the recommended curve
    d = 0x3945208F7B2144B13F36E38AC6D39F95889393692860B51A42FB81EF4DF7C5B8
    pub = pub_of(d)
    assert pub == (0x09F9DF311E5421A150DD7D161E4BC5C672179FAD1833FC076BB08FF356F35020,
                   0xCCEA490CE26775A52DC6EA718CC1AA600AED05FBF35E084A6632F6072DA9AD13)
    e = digest_for_sign(pub, DEFAULT_ID, b"message digest")
    assert e.hex().upper() == "F0B43E94BA45ACCAACE692ED534382EB17E6AB5A19CE7B31F4486FDFC0D28640"
    k = 0x59276E27D506861A16680F3AD9C02DCCEF3CC1FA3CDBE4CE6D54B80DEAC1BC21
    r, s = sign_with_k(d, e, k)
    assert r == 0xF5A03B0648D2C4630EEAC513E1BB81A15944DA3827D5B74143AC7EACEEE720B3
    assert s == 0xB1B6AA29DF212FD8763182BC0D421CA1BB9038FD1F7F42D4840B69C485BBC1AA
    assert verify_rs(pub, e, r, s)
    assert recover_k(d, r, s) == k
    # GM/T 0003.5 encryption example
    msg = b"encryption standard"
    c = encrypt_with_k(pub, msg, k)
    assert c[0][0] == 0x04EBFC718E8D1798620432268E77FEB6415E2EDE0E073C0F4F640ECD2E149A73
    assert c[1].hex().upper() == "59983C18F809E262923C53AEC295D30383B54E39D609D160AFCB1908D0BD8766"
    assert c[2].hex().upper() == "21886CA989CA9C7D58087307CA93092D651EFA"
    assert decrypt(d, *c) == msg
    assert mul_naive(N, G) is None and mul_naive(N - 1, G) == neg(G)
    return True


_selftest()
