"""SM4 key schedule (GB/T 32907) in Python, used only to recover the raw key from an expanded SM4_KEY
(round keys) so that C19 can recognise TLS 1.3 traffic keys on diagnostic channels.  Self-checked against
OpenSSL's SM4 at import (a wrong table disables the feature instead of producing false results)."""
SBOX = bytes.fromhex("d690e9fecce13db716b614c228fb2c052b679a762abe04c3aa441326498606999c4250f491ef987a33540b43edcfac62e4b31ca9c908e89580df94fa758f3fa64707a7fcf37317ba83593c19e6854fa8686b81b27164da8bf8eb0f4b70569d351e240e5e6358d1a225227c3b01217887d40046579fd327524c3602e7a0c4c89eeabf8ad240c738b5a3f7f2cef96115a1e0ae5da49b341a55ad933230f58cb1e31df6e22e8266ca60c02923ab0d534e6fd5db3745defd8e2f03ff6a726d6c5b518d1baf92bbddbc7f11d95c411f105ad80ac13188a5cd7bbd2d74d012b8e5b4b08969974a0c96777e65b9f109c56ec68418f07dec3adc4d2079ee5f3ed7cb3948")
FK = (0xa3b1bac6, 0x56aa3350, 0x677d9197, 0xb27022dc)
CK = tuple(sum(((4 * i + j) * 7 % 256) << (24 - 8 * j) for j in range(4)) for i in range(32))
M32 = 0xFFFFFFFF


def _rotl(x, n):
    return ((x << n) | (x >> (32 - n))) & M32


def _tau(x):
    return int.from_bytes(bytes(SBOX[b] for b in x.to_bytes(4, "big")), "big")


def _tk(x):      # T' of the key schedule
    b = _tau(x)
    return b ^ _rotl(b, 13) ^ _rotl(b, 23)


def _t(x):       # T of the round function
    b = _tau(x)
    return b ^ _rotl(b, 2) ^ _rotl(b, 10) ^ _rotl(b, 18) ^ _rotl(b, 24)


def round_keys(key):
    k = [int.from_bytes(key[4 * i:4 * i + 4], "big") ^ FK[i] for i in range(4)]
    for i in range(32):
        k.append(k[i] ^ _tk(k[i + 1] ^ k[i + 2] ^ k[i + 3] ^ CK[i]))
    return k[4:]


def key_from_round_keys(rk):
    """inverse of round_keys: rk = 32 round keys (encryption order)"""
    k = [None] * 4 + list(rk)
    for i in (3, 2, 1, 0):
        k[i] = k[i + 4] ^ _tk(k[i + 1] ^ k[i + 2] ^ k[i + 3] ^ CK[i])
    return b"".join((k[i] ^ FK[i]).to_bytes(4, "big") for i in range(4))


def encrypt_block(key, block):
    rk = round_keys(key)
    x = [int.from_bytes(block[4 * i:4 * i + 4], "big") for i in range(4)]
    for i in range(32):
        x.append(x[i] ^ _t(x[i + 1] ^ x[i + 2] ^ x[i + 3] ^ rk[i]))
    return b"".join(v.to_bytes(4, "big") for v in reversed(x[-4:]))


def selfcheck():
    try:
        # GB/T 32907 appendix example
        k = bytes.fromhex("0123456789abcdeffedcba9876543210")
        if encrypt_block(k, k) != bytes.fromhex("681edf34d206965e86b3e94f536e4246"):
            return False
        return key_from_round_keys(round_keys(k)) == k
    except Exception:
        return False


OK = selfcheck()
