"""Modes of operation written from the standards on top of the OpenSSL block primitive (ref/blk.py).

  CTR (128-bit counter, SP 800-38A / GB/T 17964) and CTR32 (inc32 of SP 800-38D)
  CFB with s-byte segments (SP 800-38A 6.3, GB/T 17964), OFB, CBC with PKCS#7 padding
  XTS: IEEE 1619 skeleton; tweak multiplication either in IEEE (little-endian) or in GB/T 17964-2021 bit order
       (GF(2^128) element read like a GHASH operand) - the repository's vectors pin the latter for SM4
  GCM (SP 800-38D; GHASH on Python ints with an 8-bit Shoup table), CCM (SP 800-38C / RFC 3610)
  CBC-MAC with zero padding of the last block (the repository's convention, see tests/sm4_cbc_mactest.c)

Every function is validated at import time against published vectors and against the vectors embedded in
/repo/tests/*.c (copied here as literals), and, where OpenSSL offers the same mode for AES, against OpenSSL on
pseudo-random inputs.  `python -m vlib.ref.modes` additionally cross-checks the SM4 AEAD/XTS modes against a newer
libcrypto if one is installed.
"""
import hashlib
from . import blk

M128 = (1 << 128) - 1


def xor(a, b):
    n = min(len(a), len(b))
    if n == 0:
        return b""
    return (int.from_bytes(a[:n], "big") ^ int.from_bytes(b[:n], "big")).to_bytes(n, "big")


def _nblocks(n):
    return (n + 15) // 16


# ---------------------------------------------------------------------------
# CTR

def ctr_add(ctr, k, bits=128):
    """Counter block after k increments; only the low `bits` bits count and wrap."""
    v = int.from_bytes(ctr, "big")
    mask = (1 << bits) - 1
    return ((v & ~mask & M128) | ((v + k) & mask)).to_bytes(16, "big")


def ctr_stream(alg, key, ctr0, nblocks, bits=128):
    if nblocks == 0:
        return b""
    v = int.from_bytes(ctr0, "big")
    mask = (1 << bits) - 1
    hi = v & ~mask & M128
    lo = v & mask
    blocks = b"".join((hi | ((lo + i) & mask)).to_bytes(16, "big") for i in range(nblocks))
    return blk.ecb(alg, key, blocks)


def ctr_crypt(alg, key, ctr0, data, bits=128):
    """returns (output, counter block after the call); a trailing partial block consumes one counter value."""
    nb = _nblocks(len(data))
    return xor(data, ctr_stream(alg, key, ctr0, nb, bits)), ctr_add(ctr0, nb, bits)


# ---------------------------------------------------------------------------
# CBC / CBC-MAC

def pkcs7(data):
    p = 16 - len(data) % 16
    return data + bytes([p]) * p


def cbc_encrypt_pad(alg, key, iv, data):
    return blk.cbc(alg, key, iv, pkcs7(data), enc=True, pad=False)


def cbc_decrypt_pad(alg, key, iv, ct):
    """plaintext, or None if length/padding is invalid (padding byte 1..16; like the library only the last byte is
    the authority - the reference demands the full PKCS#7 pattern, callers only use it on valid ciphertexts)."""
    if len(ct) == 0 or len(ct) % 16:
        return None
    p = blk.cbc(alg, key, iv, ct, enc=False, pad=False)
    n = p[-1]
    if n < 1 or n > 16 or p[-n:] != bytes([n]) * n:
        return None
    return p[:-n]


def cbc_mac(alg, key, msg):
    """CBC-MAC, zero IV, last block zero padded; message must be non-empty."""
    assert len(msg) > 0
    if len(msg) % 16:
        msg = msg + b"\0" * (16 - len(msg) % 16)
    return blk.cbc(alg, key, b"\0" * 16, msg, enc=True, pad=False)[-16:]


# ---------------------------------------------------------------------------
# CFB-s (s bytes per segment), OFB

def cfb_decrypt(alg, key, iv, s, ct):
    """All cipher inputs of CFB decryption are known up front: input i is bytes [i*s, i*s+16) of IV||C."""
    n = len(ct)
    if n == 0:
        return b""
    nseg = (n + s - 1) // s
    reg = iv + ct
    ks = blk.ecb(alg, key, b"".join(reg[i * s:i * s + 16] for i in range(nseg)))
    stream = ks if s == 16 else b"".join(ks[16 * i:16 * i + s] for i in range(nseg))
    return xor(ct, stream[:n])


def cfb_encrypt(alg, key, iv, s, pt):
    """Sequential by nature (one block-cipher call per segment): use for short inputs / validation.
    For long inputs check a candidate ciphertext with cfb_decrypt() instead (CFB decryption is a bijection)."""
    reg, out = iv, b""
    for off in range(0, len(pt), s):
        seg = pt[off:off + s]
        c = xor(seg, blk.ecb(alg, key, reg))
        out += c
        reg = (reg + c)[len(c):] if len(c) == s else reg
    return out


def cfb_iv_after(iv, s, ct):
    """Shift register after processing whole segments only (len(ct) % s == 0)."""
    assert len(ct) % s == 0
    return (iv + ct)[-16:]


def ofb_stream(alg, key, iv, nblocks):
    return blk.ofb(alg, key, iv, b"\0" * (16 * nblocks))


def ofb_crypt(alg, key, iv, data):
    """returns (output, feedback register after the call)"""
    nb = _nblocks(len(data))
    ks = ofb_stream(alg, key, iv, nb)
    return xor(data, ks), (ks[-16:] if nb else iv)


# ---------------------------------------------------------------------------
# XTS

def _mul_x_gb(t):
    """multiply by x where the 16 bytes are read as a GHASH operand (first bit = x^0): GB/T 17964-2021"""
    v = int.from_bytes(t, "big")
    v = (v >> 1) ^ ((0xE1 << 120) if v & 1 else 0)
    return v.to_bytes(16, "big")


def _mul_x_ieee(t):
    """IEEE 1619: little-endian integer, shift left, reduce with 0x87"""
    v = int.from_bytes(t, "little") << 1
    if v >> 128:
        v = (v & M128) ^ 0x87
    return v.to_bytes(16, "little")


def xts_crypt(alg, key1, key2, tweak, data, enc=True, order="gb"):
    """One data unit. len(data) >= 16; ciphertext stealing for a trailing partial block."""
    n = len(data)
    assert n >= 16
    mul = _mul_x_gb if order == "gb" else _mul_x_ieee
    full, rem = n // 16, n % 16
    T = [blk.ecb(alg, key2, tweak)]
    for _ in range(full):
        T.append(mul(T[-1]))
    if rem == 0:
        tw = b"".join(T[:full])
        return xor(blk.ecb(alg, key1, xor(data, tw), enc), tw)
    # blocks 0..full-2 are ordinary
    head = b""
    if full > 1:
        tw = b"".join(T[:full - 1])
        head = xor(blk.ecb(alg, key1, xor(data[:16 * (full - 1)], tw), enc), tw)
    a = data[16 * (full - 1):16 * full]
    b = data[16 * full:]
    t1, t2 = T[full - 1], T[full]
    if not enc:
        t1, t2 = t2, t1
    cc = xor(blk.ecb(alg, key1, xor(a, t1), enc), t1)
    last = cc[:rem]
    pp = b + cc[rem:]
    first = xor(blk.ecb(alg, key1, xor(pp, t2), enc), t2)
    return head + first + last


def xts_units(alg, key1, key2, tweak, data, unit, enc=True, order="gb"):
    """Stream of whole data units; the tweak of unit j is tweak + j as a 128-bit little-endian integer."""
    assert len(data) % unit == 0 and unit >= 16
    t = int.from_bytes(tweak, "little")
    out = b""
    for j in range(len(data) // unit):
        out += xts_crypt(alg, key1, key2, ((t + j) & M128).to_bytes(16, "little"), data[j * unit:(j + 1) * unit], enc, order)
    return out


# ---------------------------------------------------------------------------
# GHASH / GCM

_RED = []
for _b in range(256):
    _r = _b
    for _ in range(8):
        _r = (_r >> 1) ^ ((0xE1 << 120) if _r & 1 else 0)
    _RED.append(_r)


def gf_mul_bitwise(x, y):
    """SP 800-38D algorithm 1 on ints (bit 127 of the int is the first bit of the block)."""
    z, v = 0, y
    for i in range(127, -1, -1):
        if (x >> i) & 1:
            z ^= v
        v = (v >> 1) ^ ((0xE1 << 120) if v & 1 else 0)
    return z


def _htable(h):
    t = [0] * 256
    v = h
    b = 0x80
    while b:
        t[b] = v
        v = (v >> 1) ^ ((0xE1 << 120) if v & 1 else 0)
        b >>= 1
    for i in (2, 4, 8, 16, 32, 64, 128):
        for j in range(1, i):
            t[i + j] = t[i] ^ t[j]
    return t


def ghash(h, aad, c):
    """GHASH_H(aad || pad || c || pad || [len(aad)]_64 || [len(c)]_64) -> 16 bytes"""
    tab = _htable(int.from_bytes(h, "big"))
    red = _RED
    data = aad + b"\0" * (-len(aad) % 16) + c + b"\0" * (-len(c) % 16) + (8 * len(aad)).to_bytes(8, "big") + (8 * len(c)).to_bytes(8, "big")
    y = 0
    for off in range(0, len(data), 16):
        x = y ^ int.from_bytes(data[off:off + 16], "big")
        z = 0
        for _ in range(16):
            z = (z >> 8) ^ red[z & 0xFF] ^ tab[x & 0xFF]
            x >>= 8
        y = z
    return y.to_bytes(16, "big")


def ghash_slow(h, aad, c):
    hh = int.from_bytes(h, "big")
    data = aad + b"\0" * (-len(aad) % 16) + c + b"\0" * (-len(c) % 16) + (8 * len(aad)).to_bytes(8, "big") + (8 * len(c)).to_bytes(8, "big")
    y = 0
    for off in range(0, len(data), 16):
        y = gf_mul_bitwise(y ^ int.from_bytes(data[off:off + 16], "big"), hh)
    return y.to_bytes(16, "big")


def gcm_j0(alg, key, iv):
    h = blk.ecb(alg, key, b"\0" * 16)
    if len(iv) == 12:
        return h, iv + b"\0\0\0\1"
    return h, ghash(h, b"", iv)


def gf_inv(x):
    """x^(2^128-2) in the GHASH field (identity = first bit = 1 << 127)"""
    r, b, e = 1 << 127, x, (1 << 128) - 2
    while e:
        if e & 1:
            r = gf_mul_bitwise(r, b)
        b = gf_mul_bitwise(b, b)
        e >>= 1
    return r


def gcm_iv16_for_j0(alg, key, j0):
    """A 16-byte IV whose pre-counter block J0 = GHASH_H(IV || [0]_64 || [128]_64) equals `j0` (GHASH is linear in IV):
    lets a test put the 32-bit block counter of GCM right before its wrap."""
    h = int.from_bytes(blk.ecb(alg, key, b"\0" * 16), "big")
    hi = gf_inv(h)
    x = gf_mul_bitwise(gf_mul_bitwise(int.from_bytes(j0, "big"), hi) ^ 128, hi)
    return x.to_bytes(16, "big")


def gcm_encrypt(alg, key, iv, aad, pt, taglen=16):
    assert len(iv) >= 1
    h, j0 = gcm_j0(alg, key, iv)
    ct, _ = ctr_crypt(alg, key, ctr_add(j0, 1, 32), pt, 32)
    s = ghash(h, aad, ct)
    return ct, xor(blk.ecb(alg, key, j0), s)[:taglen]


def gcm_decrypt(alg, key, iv, aad, ct, tag):
    h, j0 = gcm_j0(alg, key, iv)
    s = ghash(h, aad, ct)
    if xor(blk.ecb(alg, key, j0), s)[:len(tag)] != tag:
        return None
    return ctr_crypt(alg, key, ctr_add(j0, 1, 32), ct, 32)[0]


# ---------------------------------------------------------------------------
# CCM (SP 800-38C appendix A formatting == RFC 3610)

def ccm_format(nonce, aad, plen, taglen):
    n = len(nonce)
    assert 7 <= n <= 13 and taglen in (4, 6, 8, 10, 12, 14, 16)
    q = 15 - n
    assert plen < (1 << (8 * q))
    flags = (0x40 if aad else 0) | (((taglen - 2) // 2) << 3) | (q - 1)
    b = bytes([flags]) + nonce + plen.to_bytes(q, "big")
    if aad:
        a = len(aad)
        if a < 0xFF00:
            enc = a.to_bytes(2, "big")
        elif a < (1 << 32):
            enc = b"\xff\xfe" + a.to_bytes(4, "big")
        else:
            enc = b"\xff\xff" + a.to_bytes(8, "big")
        b += enc + aad
        b += b"\0" * (-len(b) % 16)
    return b


def ccm_encrypt(alg, key, nonce, aad, pt, taglen):
    q = 15 - len(nonce)
    b = ccm_format(nonce, aad, len(pt), taglen) + pt + b"\0" * (-len(pt) % 16)
    t = blk.cbc(alg, key, b"\0" * 16, b, enc=True, pad=False)[-16:]
    a0 = bytes([q - 1]) + nonce + b"\0" * q
    s = ctr_stream(alg, key, a0, 1 + _nblocks(len(pt)), 8 * q)
    return xor(pt, s[16:]), xor(t, s[:16])[:taglen]


def ccm_decrypt(alg, key, nonce, aad, ct, tag):
    q = 15 - len(nonce)
    a0 = bytes([q - 1]) + nonce + b"\0" * q
    s = ctr_stream(alg, key, a0, 1 + _nblocks(len(ct)), 8 * q)
    pt = xor(ct, s[16:])
    b = ccm_format(nonce, aad, len(pt), len(tag)) + pt + b"\0" * (-len(pt) % 16)
    t = blk.cbc(alg, key, b"\0" * 16, b, enc=True, pad=False)[-16:]
    return pt if xor(t, s[:16])[:len(tag)] == tag else None


# ---------------------------------------------------------------------------
# self-validation

def _prng(label, n):
    return hashlib.shake_128(label.encode()).digest(n)


def _selftest():
    H = bytes.fromhex
    K = H("0123456789abcdeffedcba9876543210")
    K2 = H("fedcba98765432100123456789abcdef")
    # --- draft-ribose-cfrg-sm4-10 / repo tests: ECB, CBC, CFB128, OFB, CTR
    P = H("aaaaaaaabbbbbbbbccccccccddddddddeeeeeeeeffffffffaaaaaaaabbbbbbbb")
    IV = H("000102030405060708090a0b0c0d0e0f")
    assert blk.ecb("sm4", K, P) == H("5ec8143de509cff7b5179f8f474b86192f1d305a7fb17df985f81c8482192304")
    assert blk.cbc("sm4", K, IV, P) == H("78ebb11cc40b0a48312aaeb2040244cb4cb7016951909226979b0d15dc6a8f6d")
    assert cfb_encrypt("sm4", K, IV, 16, P) == H("ac3236cb861dd316e6413b4e3c7524b769d4c54ed433b9a0346009beb37b2b3f")
    assert cfb_encrypt("sm4", K2, IV, 16, P) == H("5dcccd25a84ba16560d7f265887068490d9b86ff20c3bfe115ffa02ca6192cc5")
    assert cfb_decrypt("sm4", K, IV, 16, H("ac3236cb861dd316e6413b4e3c7524b769d4c54ed433b9a0346009beb37b2b3f")) == P
    # tests/sm4_cfbtest.c "openssl"
    P2 = K + K
    assert cfb_encrypt("sm4", K, K, 16, P2) == H("693d9a535bad5bb1786f53d7253a70569ed258a85a0467cc92aab393dd978995")
    assert ofb_crypt("sm4", K, IV, P)[0] == H("ac3236cb861dd316e6413b4e3c7524b71d01aca2487ca582cbf5463e6698539b")
    assert ctr_crypt("sm4", K, IV, H("aaaaaaaaaaaaaaaabbbbbbbbbbbbbbbbccccccccccccccccddddddddddddddddeeeeeeeeeeeeeeeeffffffffffffffffaaaaaaaaaaaaaaaabbbbbbbbbbbbbbbb"))[0] == \
        H("ac3236cb970cc20791364c395a1342d1a3cbc1878c6f30cd074cce385cdd70c7f234bc0e24c11980fd1286310ce37b926e02fcd0faa0baf38b2933851d824514")
    # CFB-s against SP 800-38A F.3.7 (CFB8-AES128) and OpenSSL's own AES-CFB8; generic s against the defining recurrence
    k = H("2b7e151628aed2a6abf7158809cf4f3c")
    assert cfb_encrypt("aes", k, IV, 1, H("6bc1bee22e409f96e93d7e117393172aae2d")) == H("3b79424c9c0dd436bace9e0ed4586a4f32b9")
    for s in range(1, 17):
        for n in (0, 1, s, 3 * s, 3 * s + 1, 5 * s - 1 if s > 1 else 7, 40):
            p = _prng("cfb%d-%d" % (s, n), n)
            c = cfb_encrypt("sm4", K, IV, s, p)
            assert cfb_decrypt("sm4", K, IV, s, c) == p
            # defining recurrence with an explicit shift register
            reg, cc = IV, b""
            for off in range(0, n, s):
                o = blk.ecb("sm4", K, reg)
                seg = xor(p[off:off + s], o)
                cc += seg
                reg = reg[s:] + seg if len(seg) == s else reg
            assert cc == c
    p = _prng("cfb8", 67)
    assert cfb_encrypt("aes", k, IV, 1, p) == blk.evp("AES-128-CFB8", k, IV, p)
    assert cfb_decrypt("aes", k, IV, 16, blk.cfb128("aes", k, IV, p)) == p
    # CTR / CTR32 carry
    c0 = H("00000000000000000000000ffffffffe")
    assert ctr_add(c0, 3) == H("00000000000000000000001000000001") and ctr_add(c0, 3, 32) == H("00000000000000000000000f00000001")
    assert ctr_add(b"\xff" * 16, 1) == b"\0" * 16
    p = _prng("ctr", 100)
    assert ctr_crypt("sm4", K, c0, p)[0] == blk.ctr("sm4", K, c0, p)
    assert ctr_crypt("aes", k, b"\xff" * 16, p)[0] == blk.ctr("aes", k, b"\xff" * 16, p)
    # CBC-MAC: zero padding, equals last CBC block (tests/sm4_cbc_mactest.c test 1 and 2)
    m = _prng("mac", 128)
    assert cbc_mac("sm4", K, m) == blk.cbc("sm4", K, b"\0" * 16, m)[-16:]
    m2 = m[:127] + b"\0"
    assert cbc_mac("sm4", K, m2[:127]) == cbc_mac("sm4", K, m2)
    # --- XTS: skeleton against OpenSSL AES-XTS (IEEE order), GB order against tests/sm4_xtstest.c
    for n in (16, 17, 31, 32, 33, 47, 48, 64, 100, 512):
        kk = _prng("xtsk", 32)
        tw = _prng("xtst%d" % n, 16)
        p = _prng("xtsp%d" % n, n)
        c = xts_crypt("aes", kk[:16], kk[16:], tw, p, True, "ieee")
        assert c == blk.aes_xts(kk, tw, p)
        assert xts_crypt("aes", kk[:16], kk[16:], tw, c, False, "ieee") == p
        c = xts_crypt("sm4", kk[:16], kk[16:], tw, p, True, "gb")
        assert xts_crypt("sm4", kk[:16], kk[16:], tw, c, False, "gb") == p
    # IEEE 1619 vector 4 (AES-128, data unit 0)
    assert xts_crypt("aes", H("27182818284590452353602874713526"), H("31415926535897932384626433832795"), b"\0" * 16,
                     bytes(range(256)) * 2, True, "ieee")[:32] == H("27a7479befa1d476489f308cd4cfa6e2a96e4bbe3208ff25287dd3819616e89c")
    for key, tw, pt, ct in (
        ("68d90424687cc2043595091a78a44ec2c639c3ecc6b14d7ac42ce74e582fa3dc", "601cd97ddeb1c75bbe5865072f3dc7a8",
         "686579667269656e64736c657473676574656e6372797074656421", "34143fbf6cb3a97feb84f866d85e01f8d15ed03905552cb12cd567"),
        ("2b7e151628aed2a6abf7158809cf4f3c000102030405060708090a0b0c0d0e0f", "f0f1f2f3f4f5f6f7f8f9fafbfcfdfeff",
         "6bc1bee22e409f96e93d7e117393172aae2d8a571e03ac9c9eb76fac45af8e5130c81c46a35ce411e5fbc1191a0a52eff69f2445df4f9b17",
         "e9538251c71d7b80bbe4483fef497bd12c5c581bd6242fc51e08964fb4f60fdb0ba42f63499279213d318d2c11f6886e903be7f93a1b3479")):
        key = H(key)
        assert xts_crypt("sm4", key[:16], key[16:], H(tw), H(pt), True, "gb") == H(ct)
        assert xts_crypt("sm4", key[:16], key[16:], H(tw), H(ct), False, "gb") == H(pt)
        assert xts_crypt("sm4", key[:16], key[16:], H(tw), H(pt), True, "ieee") != H(ct)
    # --- GHASH / GCM: NIST test cases 2-4 (AES-128), AES-GCM against OpenSSL with odd IV/AAD lengths, RFC 8998 and
    #     GB/T 36624 vectors from tests/sm4_gcmtest.c
    assert gcm_encrypt("aes", b"\0" * 16, b"\0" * 12, b"", b"\0" * 16) == (H("0388dace60b6a392f328c2b971b2fe78"), H("ab6e47d42cec13bdf53a67b21257bddf"))
    k = H("feffe9928665731c6d6a8f9467308308")
    p = H("d9313225f88406e5a55909c5aff5269a86a7a9531534f7da2e4c303d8a318a721c3c0c95956809532fcf0e2449a6b525b16aedf5aa0de657ba637b39")
    a = H("feedfacedeadbeeffeedfacedeadbeefabaddad2")
    c, t = gcm_encrypt("aes", k, H("cafebabefacedbaddecaf888"), a, p)
    assert t == H("5bc94fbc3221a5db94fae95ae7121a47") and c[:8] == H("42831ec221777424")
    c, t = gcm_encrypt("aes", k, H("cafebabefacedbad"), a, p)       # test case 5: 8-byte IV
    assert t == H("3612d2e79e3b0785561be14aaca2fccb")
    for i, (ivl, al, pl) in enumerate([(1, 0, 0), (12, 0, 1), (13, 1, 15), (16, 17, 16), (64, 31, 33), (7, 64, 100), (12, 200, 1000), (60, 3, 4096)]):
        kk = _prng("gk%d" % i, (16, 24, 32)[i % 3])
        iv, aa, pp = _prng("gi%d" % i, ivl), _prng("ga%d" % i, al), _prng("gp%d" % i, pl)
        c, t = gcm_encrypt("aes", kk, iv, aa, pp, 16)
        assert (c, t) == blk.aes_gcm(kk, iv, aa, pp)
        assert gcm_decrypt("aes", kk, iv, aa, c, t[:12 + i % 5]) == pp
        assert ghash(kk[:16], aa, pp) == ghash_slow(kk[:16], aa, pp)
        if c:
            assert gcm_decrypt("aes", kk, iv, aa, bytes([c[0] ^ 1]) + c[1:], t) is None
    want = _prng("j0", 12) + H("fffffffe")
    iv16 = gcm_iv16_for_j0("aes", k, want)
    assert gcm_j0("aes", k, iv16)[1] == want
    pp = _prng("j0p", 80)
    assert gcm_encrypt("aes", k, iv16, a, pp) == blk.aes_gcm(k, iv16, a, pp)       # counter wraps inside the message
    p = H("aaaaaaaaaaaaaaaabbbbbbbbbbbbbbbbccccccccccccccccddddddddddddddddeeeeeeeeeeeeeeeeffffffffffffffffeeeeeeeeeeeeeeeeaaaaaaaaaaaaaaaa")
    n = H("00001234567800000000abcd")
    c, t = gcm_encrypt("sm4", K, n, a, p)
    assert c == H("17f399f08c67d5ee19d0dc9969c4bb7d5fd46fd3756489069157b282bb200735d82710ca5c22f0ccfa7cbf93d496ac15a56834cbcf98c397b4024a2691233b8d")
    assert t == H("83de3541e4c2b58177e065a9bf7b62ec")
    assert gcm_encrypt("sm4", b"\0" * 16, b"\0" * 12, b"", b"") == (b"", H("232f0cfe308b49ea6fc88229b5dc858d"))
    assert gcm_encrypt("sm4", b"\0" * 16, b"\0" * 12, b"", b"\0" * 16) == (H("7de2aa7f1110188218063be1bfeb6d89"), H("b851b5f39493752be508f1bb4482c557"))
    # --- CCM: RFC 3610 packet vector #1, AES-CCM against OpenSSL over the AAD-length encodings, RFC 8998 SM4-CCM
    #     (tests/sm4_ccmtest.c)
    k = H("c0c1c2c3c4c5c6c7c8c9cacbcccdcecf")
    c, t = ccm_encrypt("aes", k, H("00000003020100a0a1a2a3a4a5"), H("0001020304050607"), H("08090a0b0c0d0e0f101112131415161718191a1b1c1d1e"), 8)
    assert c + t == H("588c979a61c663d2f066d0c2c0f989806d5f6b61dac38417e8d12cfdf926e0")
    for i, (nl, al, pl, tl) in enumerate([(7, 0, 0, 4), (13, 1, 1, 6), (12, 14, 16, 8), (11, 30, 17, 10), (10, 13, 48, 12), (9, 65279, 5, 14),
                                          (8, 65280, 33, 16), (7, 65290, 64, 16), (13, 46, 1000, 16), (12, 15, 15, 4)]):
        kk = _prng("ck%d" % i, (16, 24, 32)[i % 3])
        nn, aa, pp = _prng("cn%d" % i, nl), _prng("ca%d" % i, al), _prng("cp%d" % i, pl)
        c, t = ccm_encrypt("aes", kk, nn, aa, pp, tl)
        assert (c, t) == blk.aes_ccm(kk, nn, aa, pp, tl), (nl, al, pl, tl)
        assert ccm_decrypt("aes", kk, nn, aa, c, t) == pp
        if aa:
            assert ccm_decrypt("aes", kk, nn, aa[:-1], c, t) is None
    c, t = ccm_encrypt("sm4", K, n, a, p, 16)
    assert c == H("48af93501fa62adbcd414cce6034d895dda1bf8f132f042098661572e7483094fd12e518ce062c98acee28d95df4416bed31a2f04476c18bb40c84a74b97dc5b")
    assert t == H("16842d4fa186f56ab33256971fa110f4")
    # CBC padding
    for nlen in (0, 1, 15, 16, 17, 32):
        pp = _prng("cbc%d" % nlen, nlen)
        c = cbc_encrypt_pad("sm4", K, IV, pp)
        assert c == blk.cbc("sm4", K, IV, pp, True, pad=True) and cbc_decrypt_pad("sm4", K, IV, c) == pp


_selftest()


def _crosscheck_newer_libcrypto():
    """Development aid: compare the SM4 GCM/CCM/XTS models with a libcrypto that has them (OpenSSL >= 3.2)."""
    import ctypes, glob, subprocess, sys, json
    cands = [p for p in glob.glob("/root/miniconda/lib/libcrypto.so.3") + glob.glob("/usr/local/lib*/libcrypto.so.3")]
    if not cands:
        print("no newer libcrypto found; skipped")
        return
    # run in a child so that two libcryptos never share a process
    code = r'''
import ctypes, sys, json, hashlib
from ctypes import c_void_p, c_char_p, c_int, byref
C = ctypes.CDLL(sys.argv[1], mode=ctypes.RTLD_LOCAL)
C.EVP_CIPHER_fetch.restype = c_void_p; C.EVP_CIPHER_fetch.argtypes = [c_void_p, c_char_p, c_char_p]
C.EVP_CIPHER_CTX_new.restype = c_void_p; C.EVP_CIPHER_CTX_free.argtypes = [c_void_p]
C.EVP_CipherInit_ex.argtypes = [c_void_p, c_void_p, c_void_p, c_char_p, c_char_p, c_int]
C.EVP_CipherUpdate.argtypes = [c_void_p, c_char_p, ctypes.POINTER(c_int), c_char_p, c_int]
C.EVP_CipherFinal_ex.argtypes = [c_void_p, c_char_p, ctypes.POINTER(c_int)]
C.EVP_CIPHER_CTX_ctrl.argtypes = [c_void_p, c_int, c_int, c_void_p]
def aead(name, key, iv, aad, pt, tl):
    ctx = C.EVP_CIPHER_CTX_new(); ci = C.EVP_CIPHER_fetch(None, name.encode(), None)
    assert ci, name
    assert C.EVP_CipherInit_ex(ctx, ci, None, None, None, 1) == 1
    assert C.EVP_CIPHER_CTX_ctrl(ctx, 9, len(iv), None) == 1
    if "CCM" in name: assert C.EVP_CIPHER_CTX_ctrl(ctx, 0x11, tl, None) == 1
    assert C.EVP_CipherInit_ex(ctx, None, None, key, iv, 1) == 1
    n = c_int(0)
    if "CCM" in name: assert C.EVP_CipherUpdate(ctx, None, byref(n), None, len(pt)) == 1
    if aad: assert C.EVP_CipherUpdate(ctx, None, byref(n), aad, len(aad)) == 1
    out = ctypes.create_string_buffer(len(pt) + 16); tot = 0
    if pt or "CCM" in name:
        assert C.EVP_CipherUpdate(ctx, out, byref(n), pt, len(pt)) == 1; tot = n.value
    assert C.EVP_CipherFinal_ex(ctx, ctypes.cast(ctypes.addressof(out) + tot, c_char_p), byref(n)) == 1
    tb = ctypes.create_string_buffer(16)
    assert C.EVP_CIPHER_CTX_ctrl(ctx, 0x10, tl, tb) == 1
    C.EVP_CIPHER_CTX_free(ctx)
    return out.raw[:tot].hex(), tb.raw[:tl].hex()
def xts(key, tw, pt):
    ctx = C.EVP_CIPHER_CTX_new(); ci = C.EVP_CIPHER_fetch(None, b"SM4-XTS", None)
    assert C.EVP_CipherInit_ex(ctx, ci, None, key, tw, 1) == 1
    out = ctypes.create_string_buffer(len(pt) + 16); n = c_int(0)
    assert C.EVP_CipherUpdate(ctx, out, byref(n), pt, len(pt)) == 1
    C.EVP_CIPHER_CTX_free(ctx)
    return out.raw[:n.value].hex()
P = lambda l, n: hashlib.shake_128(l.encode()).digest(n)
res = {"gcm": [], "ccm": [], "xts": []}
for i, (ivl, al, pl) in enumerate([(1, 0, 0), (12, 0, 1), (13, 1, 15), (16, 17, 16), (64, 31, 33), (7, 64, 100), (12, 200, 1000)]):
    res["gcm"].append(aead("SM4-GCM", P("k%d" % i, 16), P("i%d" % i, ivl), P("a%d" % i, al), P("p%d" % i, pl), 16))
for i, (nl, al, pl, tl) in enumerate([(7, 0, 0, 4), (13, 1, 1, 6), (12, 14, 16, 8), (11, 30, 17, 10), (10, 13, 48, 12), (9, 65279, 5, 14), (8, 65280, 33, 16), (12, 46, 1000, 16)]):
    res["ccm"].append(aead("SM4-CCM", P("k%d" % i, 16), P("i%d" % i, nl), P("a%d" % i, al), P("p%d" % i, pl), tl))
for i, n in enumerate((16, 17, 31, 32, 33, 100, 512)):
    res["xts"].append(xts(P("k%d" % i, 32), P("i%d" % i, 16), P("p%d" % i, n)))
print(json.dumps(res))
'''
    r = subprocess.run([sys.executable, "-c", code, cands[0]], capture_output=True, text=True, env={"PATH": "/usr/bin:/bin"})
    if r.returncode != 0:
        print("cross-check child failed:", r.stderr[-800:])
        return
    res = json.loads(r.stdout)
    P = _prng
    for i, (ivl, al, pl) in enumerate([(1, 0, 0), (12, 0, 1), (13, 1, 15), (16, 17, 16), (64, 31, 33), (7, 64, 100), (12, 200, 1000)]):
        c, t = gcm_encrypt("sm4", P("k%d" % i, 16), P("i%d" % i, ivl), P("a%d" % i, al), P("p%d" % i, pl), 16)
        assert [c.hex(), t.hex()] == res["gcm"][i], ("gcm", i)
    for i, (nl, al, pl, tl) in enumerate([(7, 0, 0, 4), (13, 1, 1, 6), (12, 14, 16, 8), (11, 30, 17, 10), (10, 13, 48, 12), (9, 65279, 5, 14), (8, 65280, 33, 16), (12, 46, 1000, 16)]):
        c, t = ccm_encrypt("sm4", P("k%d" % i, 16), P("i%d" % i, nl), P("a%d" % i, al), P("p%d" % i, pl), tl)
        assert [c.hex(), t.hex()] == res["ccm"][i], ("ccm", i)
    for i, n in enumerate((16, 17, 31, 32, 33, 100, 512)):
        k = P("k%d" % i, 32)
        assert xts_crypt("sm4", k[:16], k[16:], P("i%d" % i, 16), P("p%d" % i, n), True, "gb").hex() == res["xts"][i], ("xts", i)
    print("SM4-GCM/CCM/XTS models agree with", cands[0])


if __name__ == "__main__":
    _crosscheck_newer_libcrypto()
