"""TLS record protection models written from RFC 5246 / GB/T 38636 (CBC with HMAC-SM3) and RFC 8446 (AEAD)."""
import hmac, hashlib
from . import blk, modes


def cbc_hmac_protect(mac_key, enc_key, seq, rtype, version, payload, iv, padding_len=None):
    """TLSCiphertext body: IV || CBC(payload || MAC || padding).  Any padding length (0..255) that aligns is legal."""
    hdr = bytes([rtype]) + version + len(payload).to_bytes(2, "big")
    mac = hmac.new(mac_key, seq + hdr + payload, "sm3").digest()
    body = payload + mac
    minpad = (-(len(body) + 1)) % 16
    if padding_len is None:
        padding_len = minpad
    assert (len(body) + 1 + padding_len) % 16 == 0 and padding_len <= 255
    body += bytes([padding_len]) * (padding_len + 1)
    return iv + blk.cbc("sm4", enc_key, iv, body, enc=True, pad=False)


def cbc_hmac_unprotect(mac_key, enc_key, seq, rtype, version, body):
    """returns payload or None"""
    if len(body) % 16 or len(body) < 16 + 32 + 16:
        return None
    iv, ct = body[:16], body[16:]
    pt = blk.cbc("sm4", enc_key, iv, ct, enc=False, pad=False)
    pl = pt[-1]
    if len(pt) < pl + 1 + 32:
        return None
    if any(b != pl for b in pt[len(pt) - 1 - pl:]):
        return None
    payload = pt[:len(pt) - 1 - pl - 32]
    mac = pt[len(payload):len(payload) + 32]
    hdr = bytes([rtype]) + version + len(payload).to_bytes(2, "big")
    if not hmac.compare_digest(mac, hmac.new(mac_key, seq + hdr + payload, "sm3").digest()):
        return None
    return payload


def tls13_nonce(iv, seq):
    return bytes(a ^ b for a, b in zip(iv, b"\0\0\0\0" + seq))


def tls13_protect(key, iv, seq, rtype, payload, padding=0, alg="sm4"):
    inner = payload + bytes([rtype]) + bytes(padding)
    clen = len(inner) + 16
    aad = b"\x17\x03\x03" + clen.to_bytes(2, "big")
    ct, tag = modes.gcm_encrypt(alg, key, tls13_nonce(iv, seq), aad, inner, 16)
    return ct + tag


def tls13_unprotect(key, iv, seq, body, alg="sm4", valid_types=(20, 21, 22, 23)):
    """returns (type, payload) or None"""
    if len(body) < 16:
        return None
    aad = b"\x17\x03\x03" + len(body).to_bytes(2, "big")
    inner = modes.gcm_decrypt(alg, key, tls13_nonce(iv, seq), aad, body[:-16], body[-16:])
    if inner is None:
        return None
    i = len(inner)
    while i > 0 and inner[i - 1] == 0:
        i -= 1
    if i == 0:
        return None      # all padding: no content type
    if inner[i - 1] not in valid_types:
        return None
    return inner[i - 1], inner[:i - 1]
