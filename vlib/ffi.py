"""ctypes binding of libgmssl generated from the repository's own headers.

Prototypes are parsed from `gcc -E` of include/gmssl/*.h (cached by content
hash), so argument widths are right (size_t vs int) without hand-written
tables.  Struct sizes / offsets come from a helper shared object compiled
against the same headers (native sizes, never guessed).
"""
import ctypes, os, re, subprocess, hashlib, json, fcntl
from ctypes import c_int, c_uint, c_size_t, c_void_p, c_char_p, c_uint8, c_uint16, c_uint32, c_uint64, c_long, c_int64, c_double

from . import build as B

SKIP_HEADERS = {"skf.h", "sm4_cl.h", "sm3_x8_avx2.h", "rdrand.h", "dylib.h", "asm.h", "sdf.h",
                "sm2_blind.h", "sm2_commit.h", "sm2_elgamal.h", "sm2_key_share.h", "sm2_recover.h", "sm2_ring.h"}

_SCALARS = {
    "int": c_int, "unsigned int": c_uint, "unsigned": c_uint, "size_t": c_size_t, "uint8_t": c_uint8,
    "uint16_t": c_uint16, "uint32_t": c_uint32, "uint64_t": c_uint64, "int64_t": c_int64,
    "long": c_long, "time_t": c_long, "char": ctypes.c_char, "unsigned char": c_uint8,
    "tls_socket_t": c_int, "tls_ret_t": c_long, "tls_socklen_t": c_uint, "double": c_double, "long int": c_long,
    "unsigned long": ctypes.c_ulong, "unsigned long int": ctypes.c_ulong, "long unsigned int": ctypes.c_ulong,
    "ssize_t": c_long, "uint": c_uint,
}


def _preprocess():
    inc = os.path.join(B.REPO, "include")
    hs = sorted(h for h in os.listdir(os.path.join(inc, "gmssl")) if h.endswith(".h") and h not in SKIP_HEADERS)
    src = "".join('#include <gmssl/%s>\n' % h for h in hs)
    r = subprocess.run(["gcc", "-E", "-P", "-I", inc] + B.defines() + ["-x", "c", "-"], input=src, capture_output=True, text=True)
    if r.returncode != 0:
        raise RuntimeError("preprocess failed: " + r.stderr[:2000])
    return r.stdout, hs


def _strip_braces(text):
    out, depth = [], 0
    for ch in text:
        if ch == "{":
            depth += 1
            if depth == 1:
                out.append("{}")
        elif ch == "}":
            depth -= 1
        elif depth == 0:
            out.append(ch)
    return "".join(out)


def _parse(text):
    flat = _strip_braces(text)
    flat = re.sub(r"__attribute__\s*\(\(.*?\)\)", "", flat)
    flat = re.sub(r"__extension__|__restrict|__inline|__asm__\s*\([^)]*\)", "", flat)
    stmts = [s.strip() for s in flat.replace("\n", " ").split(";")]
    array_types, scalar_types, struct_types, enum_types = set(), {}, set(), set()
    protos = {}
    for s in stmts:
        if not s:
            continue
        if s.startswith("typedef"):
            m = re.match(r"typedef\s+(.*?)\s*(\w+)\s*((?:\[[^\]]*\])+)$", s)
            if m:
                array_types.add(m.group(2)); continue
            m = re.match(r"typedef\s+(struct|union)\b.*?(\w+)$", s)
            if m:
                struct_types.add(m.group(2)); continue
            m = re.match(r"typedef\s+enum\b.*?(\w+)$", s)
            if m:
                enum_types.add(m.group(1)); continue
            if "(" in s:
                m = re.search(r"\(\s*\*\s*(\w+)\s*\)", s)
                if m:
                    scalar_types[m.group(1)] = "fnptr"
                continue
            m = re.match(r"typedef\s+(.*?)\s*(\w+)$", s)
            if m:
                base = m.group(1).strip()
                if "*" in base:
                    scalar_types[m.group(2)] = "ptr"
                else:
                    scalar_types[m.group(2)] = base
            continue
        if s.startswith(("static", "struct", "union", "enum", "extern const", "extern \"")):
            if not s.startswith("extern"):
                continue
        m = re.match(r"(?:extern\s+)?([\w\s\*]+?)\s*\b(\w+)\s*\(([^()]*(?:\([^()]*\)[^()]*)*)\)$", s)
        if not m:
            continue
        ret, name, args = m.group(1).strip(), m.group(2), m.group(3).strip()
        if name in protos or ret.startswith("typedef"):
            continue
        protos[name] = (ret, args)
    return dict(array_types=sorted(array_types), scalar_types=scalar_types,
                struct_types=sorted(struct_types), enum_types=sorted(enum_types), protos=protos)


_cache = None


def parsed():
    global _cache
    if _cache is not None:
        return _cache
    text, hs = _preprocess()
    h = hashlib.sha256(text.encode()).hexdigest()[:16]
    cdir = os.path.join(B.BUILD, "native")
    os.makedirs(cdir, exist_ok=True)
    cf = os.path.join(cdir, "ffi_%s.json" % h)
    if os.path.exists(cf):
        try:
            _cache = json.load(open(cf))
            return _cache
        except Exception:
            pass
    p = _parse(text)
    p["headers"] = hs
    p["hash"] = h
    tmp = cf + ".%d" % os.getpid()
    json.dump(p, open(tmp, "w"))
    os.replace(tmp, cf)
    _cache = p
    return p


def _ctype_of(decl, P, is_ret=False):
    d = decl.strip()
    if d in ("void", ""):
        return None
    if "*" in d or "[" in d or "(" in d:
        if is_ret and re.match(r"(const\s+)?char\s*\*$", d):
            return c_char_p
        return c_void_p
    d = re.sub(r"\b(const|volatile|register)\b", "", d).strip()
    toks = d.split()
    # drop parameter name if present
    def resolve(t):
        seen = 0
        while t not in _SCALARS and seen < 8:
            if t in P["array_types"]:
                return c_void_p
            if t in P["enum_types"]:
                return c_int
            b = P["scalar_types"].get(t)
            if b is None:
                return None
            if b in ("ptr", "fnptr"):
                return c_void_p
            t = b.replace("const", "").strip()
            seen += 1
        return _SCALARS.get(t)
    for k in (len(toks), len(toks) - 1):
        if k <= 0:
            continue
        t = " ".join(toks[:k])
        if t.startswith("enum "):
            return c_int
        r = resolve(t)
        if r is not None:
            return r
    raise KeyError("unknown C type: %r" % decl)


class Lib:
    """Lazy-binding wrapper: L.func(...) sets argtypes/restype from the headers on first use."""

    def __init__(self, path):
        self._path = path
        self._dll = ctypes.CDLL(path, mode=ctypes.RTLD_GLOBAL)
        self._P = parsed()

    def has(self, name):
        return hasattr(self._dll, name)

    def sym(self, name):
        return getattr(self._dll, name)

    def manual(self, name, restype, argtypes):
        """bind an exported function that no header declares"""
        fn = getattr(self._dll, name)
        fn.restype, fn.argtypes = restype, argtypes
        return fn

    def data(self, name, ctype):
        return ctype.in_dll(self._dll, name)

    def __getattr__(self, name):
        if name.startswith("_"):
            raise AttributeError(name)
        fn = getattr(self._dll, name)
        pr = self._P["protos"].get(name)
        if pr is None:
            raise AttributeError("no prototype for %s in headers" % name)
        ret, args = pr
        fn.restype = _ctype_of(ret, self._P, is_ret=True)
        if args.strip() in ("void", ""):
            fn.argtypes = []
        else:
            at = []
            variadic = False
            for a in _split_args(args):
                if a.strip() == "...":
                    variadic = True
                    break
                at.append(_ctype_of(a, self._P))
            if not variadic:
                fn.argtypes = at
        setattr(self, name, fn)
        return fn


def _split_args(s):
    out, depth, cur = [], 0, ""
    for ch in s:
        if ch == "(":
            depth += 1
        if ch == ")":
            depth -= 1
        if ch == "," and depth == 0:
            out.append(cur); cur = ""
        else:
            cur += ch
    if cur.strip():
        out.append(cur)
    return out


# ---------------------------------------------------------------------------
# helper shared object: sizeof / offsetof / exact-size malloc blocks

OFFSETS = [
    # (struct, field)
    ("TLS_CONNECT", "protocol"), ("TLS_CONNECT", "is_client"), ("TLS_CONNECT", "cipher_suite"),
    ("TLS_CONNECT", "master_secret"), ("TLS_CONNECT", "key_block"),
    ("TLS_CONNECT", "client_write_key"), ("TLS_CONNECT", "server_write_key"),
    ("TLS_CONNECT", "client_write_iv"), ("TLS_CONNECT", "server_write_iv"),
    ("TLS_CONNECT", "client_seq_num"), ("TLS_CONNECT", "server_seq_num"),
    ("TLS_CONNECT", "client_write_mac_ctx"), ("TLS_CONNECT", "server_write_mac_ctx"),
    ("TLS_CONNECT", "client_write_enc_key"), ("TLS_CONNECT", "server_write_enc_key"),
    ("TLS_CONNECT", "sock"), ("TLS_CONNECT", "record"), ("TLS_CONNECT", "databuf"),
    ("TLS_CONNECT", "data"), ("TLS_CONNECT", "datalen"),
    ("TLS_CONNECT", "server_certs"), ("TLS_CONNECT", "server_certs_len"),
    ("TLS_CONNECT", "client_certs"), ("TLS_CONNECT", "client_certs_len"),
    ("TLS_CONNECT", "sign_key"), ("TLS_CONNECT", "kenc_key"),
    ("TLS_CONNECT", "ca_certs"), ("TLS_CONNECT", "ca_certs_len"),
    ("TLS_CONNECT", "verify_result"), ("TLS_CONNECT", "session_id"), ("TLS_CONNECT", "session_id_len"),
    ("TLS_CTX", "signkey"), ("TLS_CTX", "kenckey"), ("TLS_CTX", "certs"), ("TLS_CTX", "certslen"),
    ("TLS_CTX", "cacerts"), ("TLS_CTX", "cacertslen"), ("TLS_CTX", "verify_depth"),
    ("SM2_KEY", "public_key"), ("SM2_KEY", "private_key"),
    ("SM2_Z256_POINT", "X"), ("SM2_Z256_POINT", "Y"), ("SM2_Z256_POINT", "Z"),
    ("SM2_SIGN_CTX", "sm3_ctx"), ("SM2_SIGN_CTX", "key"),
]


CONSTS = [
    "OID_hmac_sm3", "OID_sm4_cbc", "OID_sm2sign_with_sm3", "OID_sm2", "OID_ec_public_key", "OID_cms_data",
    "TLS_protocol_tlcp", "TLS_protocol_tls12", "TLS_protocol_tls13", "TLS_client_mode", "TLS_server_mode",
    "TLS_cipher_ecc_sm4_cbc_sm3", "TLS_cipher_ecdhe_sm4_cbc_sm3", "TLS_cipher_sm4_gcm_sm3", "TLS_curve_sm2p256v1",
    "TLS_MAX_RECORD_SIZE", "TLS_MAX_PLAINTEXT_SIZE", "TLS_MAX_CERTIFICATES_SIZE", "TLS_DEFAULT_VERIFY_DEPTH", "TLS_MAX_VERIFY_DEPTH",
    "X509_cert_chain_server", "X509_cert_chain_client", "X509_cert_server_auth", "X509_cert_client_auth", "X509_cert_ca",
    "X509_version_v3", "X509_version_v1", "TLS_record_handshake", "TLS_record_application_data", "TLS_record_alert",
    "TLS_record_change_cipher_spec",
]


def _helper_source(P):
    inc = "".join('#include <gmssl/%s>\n' % h for h in P["headers"])
    lines = ["#include <stddef.h>\n#include <stdlib.h>\n#include <stdio.h>\n#include <string.h>\n", inc]
    lines.append("static char buf[262144];\n")
    lines.append("void *vh_malloc(size_t n){return malloc(n);}\nvoid vh_free(void *p){free(p);}\n")
    lines.append("#include <sys/mman.h>\n"
                 "void *vh_galloc(size_t n){size_t pg=4096,tot=((n+pg-1)/pg+1)*pg;char *m=mmap(0,tot,PROT_READ|PROT_WRITE,MAP_PRIVATE|MAP_ANONYMOUS,-1,0);"
                 "if(m==MAP_FAILED)return 0;mprotect(m+tot-pg,pg,PROT_NONE);return m+tot-pg-n;}\n"
                 "void vh_gfree(void *p,size_t n){size_t pg=4096,tot=((n+pg-1)/pg+1)*pg;munmap((char*)p+n+pg-tot,tot);}\n")
    lines.append("void *vh_fmemopen(void *b, size_t n, const char *m){return fmemopen(b,n,m);}\n")
    lines.append("void *vh_fopen(const char *p, const char *m){return fopen(p,m);}\n")
    lines.append("int vh_fclose(void *f){return fclose((FILE*)f);}\nint vh_fflush_all(void){return fflush(NULL);}\n")
    lines.append("const char *vh_json(void){char *p=buf;p+=sprintf(p,\"{\\\"sizeof\\\":{\");\n")
    first = True
    for s in P["struct_types"]:
        if s.startswith("_") or s in ("FILE", "div_t", "ldiv_t", "lldiv_t", "fd_set", "max_align_t", "sigset_t",
                                       "BLOCK_CIPHER", "BLOCK_CIPHER_KEY", "DIGEST", "DIGEST_CTX") or not s[0].isupper():
            continue
        lines.append('p+=sprintf(p,"%s\\"%s\\":%%zu",sizeof(%s));\n' % ("" if first else ",", s, s))
        first = False
    for s in ("BLOCK_CIPHER_KEY", "DIGEST_CTX", "DIGEST", "BLOCK_CIPHER"):
        lines.append('p+=sprintf(p,",\\"%s\\":%%zu",sizeof(%s));\n' % (s, s))
    lines.append('p+=sprintf(p,"},\\"offsetof\\":{");\n')
    for i, (s, f) in enumerate(OFFSETS):
        lines.append('#ifdef VH_HAS_%d\n' % i)
        lines.append('p+=sprintf(p,"\\"%s.%s\\":[%%zu,%%zu],",offsetof(%s,%s),sizeof(((%s*)0)->%s));\n' % (s, f, s, f, s, f))
        lines.append('#endif\n')
    lines.append('p+=sprintf(p,"\\"_\\":[0,0]},\\"consts\\":{");\n')
    for c in CONSTS:
        lines.append('p+=sprintf(p,"\\"%s\\":%%ld,",(long)(%s));\n' % (c, c))
    lines.append('p+=sprintf(p,"\\"_\\":0}}");return buf;}\n')
    return "".join(lines)


_helper = None


def helper():
    """Returns (dll, info) where info = {'sizeof': {...}, 'offsetof': {'S.f': [off, size]}}"""
    global _helper
    if _helper is not None:
        return _helper
    P = parsed()
    src = _helper_source(P)
    h = hashlib.sha256((src + " ".join(B.defines())).encode()).hexdigest()[:16]
    ndir = os.path.join(B.BUILD, "native")
    so = os.path.join(ndir, "vhelper_%s.so" % h)
    if not os.path.exists(so):
        lock = open(os.path.join(ndir, ".vhelper.lock"), "w")
        fcntl.flock(lock, fcntl.LOCK_EX)
        try:
            if not os.path.exists(so):
                cpath = os.path.join(ndir, "vhelper_%s.c" % h)
                open(cpath, "w").write(src)
                inc = os.path.join(B.REPO, "include")
                # probe which offsetof entries compile (fields may be renamed by a refactoring)
                defs = []
                for i, (s, f) in enumerate(OFFSETS):
                    probe = "%s\nsize_t x(void){return offsetof(%s,%s);}\n" % (
                        "#include <stdio.h>\n#include <stddef.h>\n" + "".join('#include <gmssl/%s>\n' % hh for hh in P["headers"]), s, f)
                    r = subprocess.run(["gcc", "-fsyntax-only", "-I", inc] + B.defines() + ["-x", "c", "-"], input=probe,
                                       capture_output=True, text=True)
                    if r.returncode == 0:
                        defs.append("-DVH_HAS_%d" % i)
                r = subprocess.run(["gcc", "-O1", "-g", "-fPIC", "-shared", "-I", inc] + B.defines() + defs + ["-o", so + ".tmp", cpath],
                                   capture_output=True, text=True)
                if r.returncode != 0:
                    raise RuntimeError("vhelper build failed:\n" + r.stderr[:4000])
                os.replace(so + ".tmp", so)
        finally:
            fcntl.flock(lock, fcntl.LOCK_UN)
            lock.close()
    dll = ctypes.CDLL(so)
    dll.vh_json.restype = c_char_p
    dll.vh_malloc.restype = c_void_p
    dll.vh_malloc.argtypes = [c_size_t]
    dll.vh_free.argtypes = [c_void_p]
    dll.vh_galloc.restype = c_void_p
    dll.vh_galloc.argtypes = [c_size_t]
    dll.vh_gfree.argtypes = [c_void_p, c_size_t]
    dll.vh_fmemopen.restype = c_void_p
    dll.vh_fmemopen.argtypes = [c_void_p, c_size_t, c_char_p]
    dll.vh_fopen.restype = c_void_p
    dll.vh_fopen.argtypes = [c_char_p, c_char_p]
    dll.vh_fclose.argtypes = [c_void_p]
    info = json.loads(dll.vh_json().decode())
    _helper = (dll, info)
    return _helper


def sizeof(name):
    return helper()[1]["sizeof"][name]


def const(name):
    return helper()[1]["consts"][name]


def offsetof(struct, field):
    return tuple(helper()[1]["offsetof"]["%s.%s" % (struct, field)])


class Buf:
    """Exactly-sized malloc block (an ASan-red-zoned heap object when libasan is preloaded).
    With Buf.guard = True the block instead ends exactly at a PROT_NONE page, so that even
    un-instrumented assembly reading or writing past the end faults deterministically."""
    __slots__ = ("ptr", "n", "_free", "_g")
    guard = os.environ.get("VERIF_VARIANT") in ("sm2amd64",)

    def __init__(self, n, fill=None, data=None):
        dll = helper()[0]
        self.n = n
        self._g = Buf.guard and n > 0
        if self._g:
            self.ptr = dll.vh_galloc(n)
            self._free = dll.vh_gfree
        else:
            self.ptr = dll.vh_malloc(max(n, 0)) if n > 0 else dll.vh_malloc(1)
            self._free = dll.vh_free
        if data is not None:
            ctypes.memmove(self.ptr, data, len(data))
        elif fill is not None and n:
            ctypes.memset(self.ptr, fill, n)

    @classmethod
    def of(cls, data):
        return cls(len(data), data=bytes(data))

    def raw(self, n=None, off=0):
        n = self.n - off if n is None else n
        return ctypes.string_at(self.ptr + off, n) if n > 0 else b""

    def write(self, data, off=0):
        assert off + len(data) <= self.n
        ctypes.memmove(self.ptr + off, data, len(data))

    @property
    def _as_parameter_(self):
        return c_void_p(self.ptr)

    def __del__(self):
        try:
            if self.ptr:
                if self._g:
                    self._free(self.ptr, self.n)
                else:
                    self._free(self.ptr)
                self.ptr = None
        except Exception:
            pass


def obj(name, zero=True):
    """Allocate a library struct by type name as an exact-size block."""
    return Buf(sizeof(name), fill=0 if zero else None)


_libs = {}


def lib(variant="asan"):
    if variant not in _libs:
        _libs[variant] = Lib(B.libpath(variant))
    return _libs[variant]


class Shim:
    def __init__(self):
        self.d = ctypes.CDLL(os.path.join(B.BUILD, "native", "vshim.so"))
        d = self.d
        d.vshim_stream.argtypes = [c_uint64]
        d.vshim_script.argtypes = [c_void_p, c_size_t]
        d.vshim_fail_at.argtypes = [c_long, c_int]
        d.vshim_draws.restype = c_long
        d.vshim_log_len.restype = c_size_t
        d.vshim_log_copy.argtypes = [c_void_p, c_size_t]
        d.vshim_log_copy.restype = c_size_t
        d.vshim_draw_get.argtypes = [c_long, c_void_p, c_size_t]
        d.vshim_draw_get.restype = c_long
        d.vshim_time_thread.argtypes = [c_long, c_long]
        d.vshim_time_global.argtypes = [c_int, c_long]

    def active(self):
        """True when the interposer is really in front of libc (preloaded)."""
        libc = ctypes.CDLL(None)
        self.d.vshim_stream(1)
        b1 = ctypes.create_string_buffer(8)
        libc.getentropy(b1, 8)
        self.d.vshim_stream(1)
        b2 = ctypes.create_string_buffer(8)
        libc.getentropy(b2, 8)
        self.d.vshim_reset()
        return b1.raw == b2.raw

    def reset(self): self.d.vshim_reset()
    def stream(self, seed, script=b""):
        self.d.vshim_stream(seed & 0xFFFFFFFFFFFFFFFF)
        if script:
            if self.d.vshim_script(script, len(script)) != 0:
                raise ValueError("script too long")
    def fail_at(self, i, sticky=False, err=0, count=0):
        self.d.vshim_fail_errno(err)
        self.d.vshim_fail_count(count)
        self.d.vshim_fail_at(i, 1 if sticky else 0)
    def draws(self): return self.d.vshim_draws()
    def log(self):
        n = self.d.vshim_log_len()
        b = ctypes.create_string_buffer(n or 1)
        self.d.vshim_log_copy(b, n)
        return b.raw[:n]
    def draw(self, i):
        b = ctypes.create_string_buffer(256)
        n = self.d.vshim_draw_get(i, b, 256)
        return None if n < 0 else b.raw[:n]
    def freeze_time(self, t, global_=True):
        if global_: self.d.vshim_time_global(1, t)
        else: self.d.vshim_time_thread(1, t)
    def thaw_time(self):
        self.d.vshim_time_global(0, 0); self.d.vshim_time_thread(0, 0)


_shim = None


def shim():
    global _shim
    if _shim is None:
        _shim = Shim()
    return _shim
