"""Worker entry: runs in a process with libasan + vshim preloaded."""
import sys, os, json, argparse, importlib
sys.path.insert(0, os.path.dirname(os.path.dirname(os.path.abspath(__file__))))
from vlib import core


def main():
    ap = argparse.ArgumentParser()
    ap.add_argument("--prop"); ap.add_argument("--sub"); ap.add_argument("--n", type=int)
    ap.add_argument("--seed", type=int); ap.add_argument("--out"); ap.add_argument("--variant", default="asan")
    ap.add_argument("--single")
    a = ap.parse_args()
    if a.single:
        j = json.load(open(a.single))
        mod = importlib.import_module("props." + j["property"])
        res = core.run_single(mod.P, j["sub"], j["case"], j.get("variant", "asan"), suppress=j.get("suppress", False))
        with open(a.single + ".out", "w") as f:
            json.dump({"result": res}, f)
        return 0
    mod = importlib.import_module("props." + a.prop)
    core.run_worker(mod.P, a.sub, a.n, a.seed, a.out, a.variant)
    return 0


if __name__ == "__main__":
    sys.exit(main())
