"""Moving SM2 values between Python integers and the library's public structs.

sm2_z256_t is uint64_t[4], least significant limb first.  SM2_Z256_POINT is
{X, Y, Z}: Jacobian coordinates, each in Montgomery form (value * 2^256 mod p),
as include/gmssl/sm2_z256.h documents; infinity has Z == 0.
"""
import ctypes
from .ffi import Buf, sizeof, lib
from .ref import sm2 as M

R = 1 << 256
RINV_P = pow(R, -1, M.P)
RINV_N = pow(R, -1, M.N)


def z_in(v):
    """exact 32-byte heap block holding v as sm2_z256_t"""
    return Buf.of(int(v).to_bytes(32, "little"))


def z_out():
    return Buf(32, fill=0xA5)


def z_get(buf, off=0):
    return int.from_bytes(buf.raw(32, off), "little")


def to_mont_p(v):
    return v * R % M.P


def from_mont_p(v):
    return v * RINV_P % M.P


def pt_in(aff, lam=1, zero_form=False):
    """SM2_Z256_POINT for affine point `aff` (None = infinity) scaled by lam (Jacobian representative)."""
    b = Buf(96, fill=0)
    if aff is None:
        if zero_form:
            vals = (0, 0, 0)
        else:
            # (lam^2, lam^3, 0): what the header calls a valid infinity encoding
            vals = (to_mont_p(lam * lam % M.P), to_mont_p(lam * lam * lam % M.P), 0)
    else:
        x, y = aff
        vals = (to_mont_p(x * lam * lam % M.P), to_mont_p(y * lam * lam * lam % M.P), to_mont_p(lam % M.P))
    b.write(b"".join(int(v).to_bytes(32, "little") for v in vals))
    return b


def pt_raw(buf, off=0):
    raw = buf.raw(96, off)
    return tuple(int.from_bytes(raw[i * 32:(i + 1) * 32], "little") for i in range(3))


def pt_get(buf, off=0):
    """Decode SM2_Z256_POINT to affine (x, y) / None. Returns (affine, wellformed: coords < p)"""
    X, Y, Z = pt_raw(buf, off)
    ok = X < M.P and Y < M.P and Z < M.P
    if Z % M.P == 0:
        return None, ok
    x, y, z = from_mont_p(X % M.P), from_mont_p(Y % M.P), from_mont_p(Z % M.P)
    zi = pow(z, -1, M.P)
    return (x * zi * zi % M.P, y * zi * zi * zi % M.P), ok


def key_in(d=None, pub=None):
    """SM2_KEY struct {SM2_Z256_POINT public_key; sm2_z256_t private_key}"""
    b = Buf(sizeof("SM2_KEY"), fill=0)
    if pub is None and d is not None:
        pub = M.pub_of(d)
    if pub is not None:
        b.write(pt_in(pub).raw(), 0)
    if d is not None:
        b.write(int(d).to_bytes(32, "little"), 96)
    return b
