"""A scripted, pure-Python TLS 1.3 peer for GmSSL's TLS 1.3 profile (RFC 8446 + RFC 8998).

    cipher suite TLS_SM4_GCM_SM3 (0x00C6), group curveSM2 (41), signature sm2sig_sm3 (0x0708) with the
    signer ID "TLSv1.3+GM+Cipher+Suite", one handshake message per record, no middlebox compatibility
    (no ChangeCipherSpec, empty session id), no PSK / HelloRetryRequest / KeyUpdate.

Written from the RFCs and from reading src/tls13.c / src/tls_ext.c for the profile choices; it shares no
code with the library: SM3/HMAC via hashlib, SM4-GCM via vlib/ref/modes.py, SM2 via vlib/ref/sm2.py on
Python integers, DER via vlib/ref/sigder.py.

  ScriptedServer  talks to the library's TLS 1.3 client   (tls13_do_connect)
  ScriptedClient  talks to the library's TLS 1.3 server   (tls13_do_accept), with or without client authentication

Both follow a *flight plan*: the ordered list of handshake messages of their authentication flight.  An honest
plan is [ee, (cr,) cert, cv, fin] (server) / [cert, cv, fin] (client).  Every deviation of a dishonest peer is a
different plan: messages left out, repeated, reordered; a CertificateVerify with any SignatureScheme code and a
signature made by any key / signer ID / context string / transcript prefix, or arbitrary bytes.  Whatever the plan
says, the key schedule and the Finished MAC are computed over the transcript that really went over the wire, so
the Finished check of the other side can never be what stops a dishonest script.

All randomness (hello random, ephemeral key, signature nonces, random scheme codes / signatures / padding) comes
from a Drbg seeded by the caller.  Socket waits use timeouts and end the script with Stop(reason); they are
reported, never judged here.
"""
import functools, hashlib, hmac, socket, threading

from .ref import sm2 as M
from .ref import sigder as D
from .ref import tlsrec as R

# ---------------------------------------------------------------------------------------------------------------
# constants of the profile

CIPHER_SM4_GCM_SM3 = 0x00C6
GROUP_SM2 = 41
SIG_SM2SIG_SM3 = 0x0708
TLS13_SM2_ID = b"TLSv1.3+GM+Cipher+Suite"
V12, V13, V10 = b"\x03\x03", b"\x03\x04", b"\x03\x01"

RT_CCS, RT_ALERT, RT_HANDSHAKE, RT_APPDATA = 20, 21, 22, 23
HS_CLIENT_HELLO, HS_SERVER_HELLO, HS_ENCRYPTED_EXTENSIONS = 1, 2, 8
HS_CERTIFICATE, HS_CERTIFICATE_REQUEST, HS_CERTIFICATE_VERIFY, HS_FINISHED = 11, 13, 15, 20
EXT_SUPPORTED_GROUPS, EXT_SIGNATURE_ALGORITHMS, EXT_SUPPORTED_VERSIONS, EXT_KEY_SHARE = 10, 13, 43, 51

CTX_SERVER = b"TLS 1.3, server CertificateVerify"
CTX_CLIENT = b"TLS 1.3, client CertificateVerify"

HASHLEN = 32


class Stop(Exception):
    """the script cannot go on: reason in {'closed', 'timeout', 'bad-record', 'unexpected', 'alert'}"""

    def __init__(self, reason, detail=""):
        Exception.__init__(self, "%s %s" % (reason, detail))
        self.reason, self.detail = reason, detail


# ---------------------------------------------------------------------------------------------------------------
# deterministic randomness

class Drbg:
    def __init__(self, seed, label=""):
        self.key = hashlib.sha256(("peer13/%s/%s" % (seed, label)).encode()).digest()
        self.ctr = 0

    def bytes(self, n):
        out = b""
        while len(out) < n:
            out += hashlib.sha256(self.key + self.ctr.to_bytes(8, "big")).digest()
            self.ctr += 1
        return out[:n]

    def below(self, n):
        return int.from_bytes(self.bytes(16), "big") % n

    def scalar(self):
        return int.from_bytes(self.bytes(40), "big") % (M.N - 1) + 1


# ---------------------------------------------------------------------------------------------------------------
# SM2 helpers with per-key / fixed-base precomputation

_GTAB = []


def _gtab():
    """comb table: _GTAB[i][j] = [j * 16^i] G (Jacobian), j = 1..15"""
    if not _GTAB:
        base = (M.GX, M.GY, 1)
        for _ in range(64):
            row, acc = [None, base], base
            for j in range(2, 16):
                acc = M._jadd(acc, base)
                row.append(acc)
            _GTAB.append(row)
            base = M._jdbl(M._jdbl(M._jdbl(M._jdbl(base))))
    return _GTAB


@functools.lru_cache(maxsize=4096)
def mul_g(k):
    """[k]G, affine"""
    k %= M.N
    tab, acc, i = _gtab(), (1, 1, 0), 0
    while k:
        nib = k & 15
        if nib:
            acc = M._jadd(acc, tab[i][nib])
        k >>= 4
        i += 1
    return M._to_affine(acc)


@functools.lru_cache(maxsize=4096)
def _z_of(pub, ident):
    return M.compute_z(pub, ident)


@functools.lru_cache(maxsize=4096)
def _inv1d(d):
    return pow(1 + d, -1, M.N)


def sm2_sign(d, pub, ident, msg, rng):
    """DER signature over msg with signer ID ident; nonce from rng"""
    e = M.b2i(M.sm3(_z_of(pub, ident) + msg))
    while True:
        k = rng.scalar()
        x1 = mul_g(k)[0]
        r = (e + x1) % M.N
        if r == 0 or r + k == M.N:
            continue
        s = _inv1d(d) * (k - r * d) % M.N
        if s == 0:
            continue
        return D.enc_sig(r, s)


def sm2_verify(pub, ident, msg, sig):
    rs = D.parse_sig(sig)
    if rs is None:
        return False
    r, s = rs
    if not (1 <= r < M.N and 1 <= s < M.N):
        return False
    e = M.b2i(M.sm3(_z_of(pub, ident) + msg))
    t = (r + s) % M.N
    if t == 0:
        return False
    pt = M.add(mul_g(s), M.mul(t, pub))
    return pt is not None and (e + pt[0]) % M.N == r


def point_octets(pt):
    return b"\x04" + M.i2b(pt[0]) + M.i2b(pt[1])


def point_from_octets(b):
    if len(b) != 65 or b[0] != 4:
        return None
    pt = (M.b2i(b[1:33]), M.b2i(b[33:65]))
    return pt if M.on_curve(pt) else None


# ---------------------------------------------------------------------------------------------------------------
# key schedule (RFC 8446 section 7.1) with SM3

def sm3(b):
    return hashlib.new("sm3", b).digest()


def hkdf_extract(salt, ikm):
    return hmac.new(salt, ikm, "sm3").digest()


def hkdf_expand(prk, info, n):
    out, t, i = b"", b"", 1
    while len(out) < n:
        t = hmac.new(prk, t + info + bytes([i]), "sm3").digest()
        out += t
        i += 1
    return out[:n]


def expand_label(secret, label, context, n):
    lab = b"tls13 " + label
    return hkdf_expand(secret, n.to_bytes(2, "big") + bytes([len(lab)]) + lab + bytes([len(context)]) + context, n)


def derive_secret(secret, label, thash):
    return expand_label(secret, label, thash, HASHLEN)


class Schedule:
    def __init__(self, shared_x):
        early = hkdf_extract(bytes(HASHLEN), bytes(HASHLEN))
        self.hs = hkdf_extract(derive_secret(early, b"derived", sm3(b"")), shared_x)
        self.master = hkdf_extract(derive_secret(self.hs, b"derived", sm3(b"")), bytes(HASHLEN))

    def handshake_traffic(self, thash):
        return derive_secret(self.hs, b"c hs traffic", thash), derive_secret(self.hs, b"s hs traffic", thash)

    def app_traffic(self, thash):
        return derive_secret(self.master, b"c ap traffic", thash), derive_secret(self.master, b"s ap traffic", thash)


def traffic_keys(secret):
    return expand_label(secret, b"key", b"", 16), expand_label(secret, b"iv", b"", 12)


def finished_mac(secret, thash):
    return hmac.new(expand_label(secret, b"finished", b"", HASHLEN), thash, "sm3").digest()


# ---------------------------------------------------------------------------------------------------------------
# messages

def u8v(b):
    return bytes([len(b)]) + b


def u16v(b):
    return len(b).to_bytes(2, "big") + b


def u24v(b):
    return len(b).to_bytes(3, "big") + b


def hs_msg(t, body):
    return bytes([t]) + u24v(body)


def ext(t, data):
    return t.to_bytes(2, "big") + u16v(data)


def client_hello(random, pub, session_id=b""):
    exts = (ext(EXT_SUPPORTED_VERSIONS, u8v(V13)) + ext(EXT_SUPPORTED_GROUPS, u16v(GROUP_SM2.to_bytes(2, "big"))) +
            ext(EXT_SIGNATURE_ALGORITHMS, u16v(SIG_SM2SIG_SM3.to_bytes(2, "big"))) +
            ext(EXT_KEY_SHARE, u16v(GROUP_SM2.to_bytes(2, "big") + u16v(point_octets(pub)))))
    return hs_msg(HS_CLIENT_HELLO, V12 + random + u8v(session_id) + u16v(CIPHER_SM4_GCM_SM3.to_bytes(2, "big")) + u8v(b"\0") + u16v(exts))


def server_hello(random, pub, session_id=b""):
    exts = ext(EXT_SUPPORTED_VERSIONS, V13) + ext(EXT_KEY_SHARE, GROUP_SM2.to_bytes(2, "big") + u16v(point_octets(pub)))
    return hs_msg(HS_SERVER_HELLO, V12 + random + u8v(session_id) + CIPHER_SM4_GCM_SM3.to_bytes(2, "big") + b"\0" + u16v(exts))


def encrypted_extensions():
    return hs_msg(HS_ENCRYPTED_EXTENSIONS, u16v(ext(EXT_SUPPORTED_GROUPS, u16v(GROUP_SM2.to_bytes(2, "big")))))


def certificate_request(context=b""):
    return hs_msg(HS_CERTIFICATE_REQUEST, u8v(context) + u16v(ext(EXT_SIGNATURE_ALGORITHMS, u16v(SIG_SM2SIG_SM3.to_bytes(2, "big")))))


def certificate(chain, context=b""):
    """chain: list of DER certificates, end entity first"""
    return hs_msg(HS_CERTIFICATE, u8v(context) + u24v(b"".join(u24v(c) + u16v(b"") for c in chain)))


def certificate_verify(scheme, sig):
    return hs_msg(HS_CERTIFICATE_VERIFY, scheme.to_bytes(2, "big") + u16v(sig))


def finished(verify_data):
    return hs_msg(HS_FINISHED, verify_data)


def cv_tbs(context, thash):
    return b"\x20" * 64 + context + b"\0" + thash


class Rd:
    """bounds-checked reader; any shortfall raises Stop('unexpected')"""

    def __init__(self, b):
        self.b, self.o = bytes(b), 0

    def take(self, n):
        if self.o + n > len(self.b):
            raise Stop("unexpected", "short message")
        v = self.b[self.o:self.o + n]
        self.o += n
        return v

    def u(self, n):
        return int.from_bytes(self.take(n), "big")

    def vec(self, n):
        return self.take(self.u(n))

    def rest(self):
        return len(self.b) - self.o


def parse_exts(b):
    out, r = {}, Rd(b)
    while r.rest():
        t = r.u(2)
        out[t] = r.vec(2)
    return out


def split_der_certs(blob):
    """concatenated DER certificates -> list"""
    out, off = [], 0
    while off < len(blob):
        t = D.read_tlv(blob, off)
        assert t is not None and t[0] == 0x30
        out.append(blob[off:t[2]])
        off = t[2]
    return out


def cert_signature_value(der):
    """the signatureValue (DER SEQUENCE{r,s}) of a certificate: a well-formed signature of something else"""
    outer = D.read_tlv(der, 0)[1]
    off = 0
    for _ in range(3):
        t = D.read_tlv(outer, off)
        last, off = t, t[2]
    assert last[0] == 0x03
    return last[1][1:]


# ---------------------------------------------------------------------------------------------------------------
# record layer

class Wire:
    def __init__(self, sock, timeout):
        self.sock = sock
        sock.settimeout(timeout)
        self.rkey = self.wkey = None
        self.rseq = self.wseq = 0
        self.alerts = []          # (level, description, 'plain' | 'protected') received from the other side
        self.trace = []           # compact log: ">hs11", "<alert", ...

    def set_read(self, secret):
        self.rkey, self.rseq = traffic_keys(secret), 0

    def set_write(self, secret):
        self.wkey, self.wseq = traffic_keys(secret), 0

    def _sendall(self, b):
        try:
            self.sock.sendall(b)
        except socket.timeout:
            raise Stop("timeout", "send")
        except OSError as e:
            raise Stop("closed", "send: %r" % (e,))

    def send_plain(self, rtype, payload, version=V12):
        self.trace.append(">p%d" % rtype)
        self._sendall(bytes([rtype]) + version + u16v(payload))

    def send(self, rtype, payload, padding=0):
        body = R.tls13_protect(self.wkey[0], self.wkey[1], self.wseq.to_bytes(8, "big"), rtype, payload, padding)
        self.wseq += 1
        self.trace.append(">e%d" % rtype)
        self._sendall(b"\x17" + V12 + u16v(body))

    def _recvn(self, n):
        buf = b""
        while len(buf) < n:
            try:
                c = self.sock.recv(n - len(buf))
            except socket.timeout:
                raise Stop("timeout", "recv")
            except OSError as e:
                raise Stop("closed", "recv: %r" % (e,))
            if not c:
                raise Stop("closed", "eof")
            buf += c
        return buf

    def recv(self):
        """-> (content type, payload, protected?)  plaintext alerts are logged in self.alerts and returned like any record"""
        hdr = self._recvn(5)
        ln = int.from_bytes(hdr[3:5], "big")
        if ln > 16384 + 256:
            raise Stop("unexpected", "record length %d" % ln)
        body = self._recvn(ln) if ln else b""
        if hdr[0] == RT_APPDATA and self.rkey is not None:
            r = R.tls13_unprotect(self.rkey[0], self.rkey[1], self.rseq.to_bytes(8, "big"), body)
            if r is None:
                raise Stop("bad-record", "record %d under the current read key does not open" % self.rseq)
            self.rseq += 1
            t, payload, prot = r[0], r[1], True
        else:
            t, payload, prot = hdr[0], body, False
        if t == RT_ALERT:
            self.alerts.append((payload[0] if payload else None, payload[1] if len(payload) > 1 else None, "protected" if prot else "plain"))
            self.trace.append("<alert%s" % (payload[1] if len(payload) > 1 else "?"))
        else:
            self.trace.append("<%s%d" % ("e" if prot else "p", t))
        return t, payload, prot

    def recv_handshake(self, skip_alerts=False):
        """next handshake message (one per record in this profile) -> (type, whole message bytes)"""
        while True:
            t, payload, prot = self.recv()
            if t == RT_ALERT:
                if skip_alerts:
                    continue        # a peer that announces a fatal alert but goes on must be followed, not trusted
                raise Stop("alert", "alert %r" % (self.alerts[-1],))
            if t == RT_CCS and not prot:
                continue
            if t != RT_HANDSHAKE:
                raise Stop("unexpected", "record type %d while waiting for a handshake message" % t)
            r = Rd(payload)
            ht = r.u(1)
            body = r.vec(3)
            if r.rest():
                raise Stop("unexpected", "more than one handshake message in a record")
            return ht, payload


# ---------------------------------------------------------------------------------------------------------------
# flight plan items

def item(msg, **kw):
    d = {"msg": msg}
    d.update(kw)
    return d


def sig_sign(key, ident=TLS13_SM2_ID, context=None, thash="current"):
    """a real SM2 signature by key=(d, pub).  context: None = the sender's own context string, else CTX_SERVER / CTX_CLIENT;
    thash: 'current' (everything sent so far = what the verifier hashes), 'drop-last' (without the last message),
    'hello' (ClientHello..ServerHello only), 'empty' (hash of nothing)"""
    return {"kind": "sign", "key": key, "id": ident, "context": context, "thash": thash}


def sig_raw(b):
    return {"kind": "raw", "bytes": bytes(b)}


class _Peer:
    """common part of both roles"""

    def __init__(self, sock, seed, plan, timeout=10.0, padding=0):
        self.sock = sock
        self.rng = Drbg(seed, "main")
        self.eph_rng = Drbg(seed, "ecdhe")
        self.plan = plan
        self.padding = padding
        self.w = Wire(sock, timeout)
        self.transcript = []            # (tag, message bytes)
        self.sent = []                  # tags of the authentication flight actually sent
        self.stop = None                # Stop that ended the script, if any
        self.done = False               # own handshake script ran to its end (says nothing about the other side)
        self.peer_finished_ok = None    # the other side's Finished verified under our view of the transcript
        self.peer_cv_ok = None
        self.peer_flight = []           # handshake types received in the protected flight of the other side
        self.error = None

    # transcript ---------------------------------------------------------------------------------------
    def _add(self, tag, msg):
        self.transcript.append((tag, msg))

    def thash(self, which="current"):
        msgs = [m for _, m in self.transcript]
        if which == "drop-last":
            msgs = msgs[:-1]
        elif which == "hello":
            msgs = msgs[:2]
        elif which == "empty":
            msgs = []
        else:
            assert which == "current"
        return sm3(b"".join(msgs))

    # flight ------------------------------------------------------------------------------------------------
    def _signature(self, spec):
        if spec["kind"] == "raw":
            return spec["bytes"]
        d, pub = spec["key"]
        ctxs = spec["context"] if spec["context"] is not None else self.own_context
        return sm2_sign(d, pub, spec["id"], cv_tbs(ctxs, self.thash(spec["thash"])), self.rng)

    def _send_flight(self, my_secret):
        for it in self.plan:
            m = it["msg"]
            if m == "ee":
                msg = encrypted_extensions()
            elif m == "cr":
                msg = certificate_request(it.get("context", b""))
            elif m == "cert":
                msg = certificate(it["chain"], it.get("context", b""))
            elif m == "cv":
                msg = certificate_verify(it["scheme"], self._signature(it["sig"]))
            elif m == "fin":
                vd = finished_mac(my_secret, self.thash())
                if it.get("corrupt"):
                    vd = bytes([vd[0] ^ 1]) + vd[1:]
                msg = finished(vd)
            else:
                raise AssertionError("unknown plan item %r" % (m,))
            pad = self.padding if isinstance(self.padding, int) else self.padding[len(self.sent) % len(self.padding)]
            self.w.send(RT_HANDSHAKE, msg, pad)
            self._add(m, msg)
            self.sent.append(m)

    # application data (after the handshake script has ended) ---------------------------
    def send_app(self, data, padding=0):
        self.w.send(RT_APPDATA, data, padding)

    def recv_app(self, total):
        """collect `total` bytes of application data; raises Stop"""
        out = b""
        while len(out) < total:
            t, payload, prot = self.w.recv()
            if t == RT_ALERT:
                raise Stop("alert", "alert %r" % (self.w.alerts[-1],))
            if t != RT_APPDATA or not prot:
                raise Stop("unexpected", "record type %d while waiting for application data" % t)
            out += payload
        return out

    def run(self):
        try:
            self._script()
            self.done = True
        except Stop as s:
            self.stop = s
            self._hangup()               # the script cannot go on: let the other side see EOF instead of waiting for us
        except Exception as e:           # harness bug: surfaced by the caller
            self.error = repr(e)
            import traceback
            self.error += "\n" + traceback.format_exc()
            self._hangup()

    def _hangup(self):
        try:
            self.sock.shutdown(socket.SHUT_RDWR)
        except OSError:
            pass

    def start_thread(self):
        self.thread = threading.Thread(target=self.run, daemon=True)
        self.thread.start()
        return self.thread

    def summary(self):
        return {"done": self.done, "stop": (self.stop.reason + ":" + self.stop.detail) if self.stop else None, "sent": self.sent,
                "peer_flight": self.peer_flight, "peer_finished_ok": self.peer_finished_ok, "peer_cv_ok": self.peer_cv_ok,
                "alerts": self.w.alerts, "trace": self.w.trace, "error": self.error}


class ScriptedServer(_Peer):
    """plays the server against a TLS 1.3 client.  plan: items 'ee', 'cr', 'cert', 'cv', 'fin' in the order to send them."""
    own_context, other_context = CTX_SERVER, CTX_CLIENT

    def __init__(self, sock, seed, plan, timeout=10.0, padding=0, client_pub_for_cv=None):
        _Peer.__init__(self, sock, seed, plan, timeout, padding)
        self.client_pub_for_cv = client_pub_for_cv

    def _script(self):
        w = self.w
        ht, ch = w.recv_handshake()
        if ht != HS_CLIENT_HELLO:
            raise Stop("unexpected", "first message has type %d" % ht)
        r = Rd(ch[4:])
        r.take(2); r.take(32)
        sid = r.vec(1)
        suites = r.vec(2)
        r.vec(1)
        exts = parse_exts(r.vec(2))
        if CIPHER_SM4_GCM_SM3.to_bytes(2, "big") not in [suites[i:i + 2] for i in range(0, len(suites), 2)]:
            raise Stop("unexpected", "TLS_SM4_GCM_SM3 not offered")
        cpub = None
        if EXT_KEY_SHARE in exts:
            ks = Rd(Rd(exts[EXT_KEY_SHARE]).vec(2))
            while ks.rest():
                g = ks.u(2)
                kx = ks.vec(2)
                if g == GROUP_SM2:
                    cpub = point_from_octets(kx)
        if cpub is None:
            raise Stop("unexpected", "no usable curveSM2 key share")
        self._add("ch", ch)
        d = self.eph_rng.scalar()
        sh = server_hello(self.rng.bytes(32), mul_g(d), sid)
        w.send_plain(RT_HANDSHAKE, sh)
        self._add("sh", sh)
        ks = Schedule(M.i2b(M.mul(d, cpub)[0]))
        c_hs, s_hs = ks.handshake_traffic(self.thash())
        w.set_write(s_hs)
        w.set_read(c_hs)
        self._send_flight(s_hs)
        c_ap, s_ap = ks.app_traffic(self.thash())
        # the client's flight: [Certificate, CertificateVerify,] Finished; alerts in between are stepped over
        while True:
            ht, msg = w.recv_handshake(skip_alerts=True)
            self.peer_flight.append(ht)
            if ht == HS_FINISHED:
                self.peer_finished_ok = msg[4:] == finished_mac(c_hs, self.thash())
                self._add("cfin", msg)
                break
            if ht == HS_CERTIFICATE_VERIFY and self.client_pub_for_cv is not None:
                rr = Rd(msg[4:])
                scheme = rr.u(2)
                self.peer_cv_ok = scheme == SIG_SM2SIG_SM3 and sm2_verify(self.client_pub_for_cv, TLS13_SM2_ID, cv_tbs(CTX_CLIENT, self.thash()), rr.vec(2))
            self._add("c%d" % ht, msg)
        w.set_write(s_ap)
        w.set_read(c_ap)


class ScriptedClient(_Peer):
    """plays the client against a TLS 1.3 server.  plan: items 'cert', 'cv', 'fin' in the order to send them.
    only_if_requested: drop 'cert'/'cv' items when the server sent no CertificateRequest (honest behaviour)."""
    own_context, other_context = CTX_CLIENT, CTX_SERVER

    def __init__(self, sock, seed, plan, timeout=10.0, padding=0, server_pub_for_cv=None, only_if_requested=False):
        _Peer.__init__(self, sock, seed, plan, timeout, padding)
        self.server_pub_for_cv = server_pub_for_cv
        self.only_if_requested = only_if_requested
        self.cert_requested = False
        self.server_chain = None

    def _script(self):
        w = self.w
        d = self.eph_rng.scalar()
        ch = client_hello(self.rng.bytes(32), mul_g(d))
        w.send_plain(RT_HANDSHAKE, ch, version=V10)
        self._add("ch", ch)
        ht, sh = w.recv_handshake()
        if ht != HS_SERVER_HELLO:
            raise Stop("unexpected", "expected ServerHello, got type %d" % ht)
        r = Rd(sh[4:])
        r.take(2); r.take(32); r.vec(1)
        if r.u(2) != CIPHER_SM4_GCM_SM3 or r.u(1) != 0:
            raise Stop("unexpected", "ServerHello cipher suite / compression")
        exts = parse_exts(r.vec(2))
        if exts.get(EXT_SUPPORTED_VERSIONS) != V13 or EXT_KEY_SHARE not in exts:
            raise Stop("unexpected", "ServerHello extensions")
        kr = Rd(exts[EXT_KEY_SHARE])
        if kr.u(2) != GROUP_SM2:
            raise Stop("unexpected", "ServerHello key share group")
        spub = point_from_octets(kr.vec(2))
        if spub is None:
            raise Stop("unexpected", "ServerHello key share")
        self._add("sh", sh)
        ks = Schedule(M.i2b(M.mul(d, spub)[0]))
        c_hs, s_hs = ks.handshake_traffic(self.thash())
        w.set_read(s_hs)
        w.set_write(c_hs)
        while True:
            ht, msg = w.recv_handshake()
            self.peer_flight.append(ht)
            if ht == HS_FINISHED:
                self.peer_finished_ok = msg[4:] == finished_mac(s_hs, self.thash())
                self._add("sfin", msg)
                break
            if ht == HS_CERTIFICATE_REQUEST:
                self.cert_requested = True
            if ht == HS_CERTIFICATE:
                rr = Rd(msg[4:])
                rr.vec(1)
                lst, chain = Rd(rr.vec(3)), []
                while lst.rest():
                    chain.append(lst.vec(3))
                    lst.vec(2)
                self.server_chain = chain
            if ht == HS_CERTIFICATE_VERIFY and self.server_pub_for_cv is not None:
                rr = Rd(msg[4:])
                scheme = rr.u(2)
                self.peer_cv_ok = scheme == SIG_SM2SIG_SM3 and sm2_verify(self.server_pub_for_cv, TLS13_SM2_ID, cv_tbs(CTX_SERVER, self.thash()), rr.vec(2))
            self._add("s%d" % ht, msg)
        if not self.peer_finished_ok:
            raise Stop("unexpected", "server Finished does not verify under the script's key schedule")
        c_ap, s_ap = ks.app_traffic(self.thash())
        if self.only_if_requested and not self.cert_requested:
            self.plan = [it for it in self.plan if it["msg"] not in ("cert", "cv")]
        self._send_flight(c_hs)
        w.set_write(c_ap)
        w.set_read(s_ap)


# ---------------------------------------------------------------------------------------------------------------
# behaviours: name -> plan builder.  creds = {
#   'chain': [DER...]      the trusted chain the peer presents (its own in the honest run, the victim's otherwise)
#   'key': (d, pub)        the private key that belongs to chain[0]
#   'wrong_key': (d, pub)  a key that does not belong to chain[0]
#   'untrusted_chain', 'untrusted_key': a chain under a root the verifier does not trust, with its matching key }
# rng: Drbg for the free choices inside a behaviour.  role: 'server' (scripted server) or 'client' (scripted client).

OTHER_SCHEMES = {"0403": 0x0403, "0804": 0x0804, "0807": 0x0807, "0000": 0x0000, "ffff": 0xFFFF, "0707": 0x0707, "0709": 0x0709, "0808": 0x0808}


def _random_scheme(rng):
    while True:
        v = rng.below(1 << 16)
        if v != SIG_SM2SIG_SM3:
            return v


def _bad_sig(kind, creds, rng):
    """signature field for a CertificateVerify that announces a foreign scheme code"""
    if kind == "wrong-key":
        return sig_sign(creds["wrong_key"])
    if kind == "random":
        return sig_raw(rng.bytes(1 + rng.below(96)))
    if kind == "empty":
        return sig_raw(b"")
    if kind == "p256-shaped":      # two 32-byte integers in DER, what an ECDSA P-256 signature looks like
        return sig_raw(D.enc_sig(int.from_bytes(rng.bytes(32), "big") | 1, int.from_bytes(rng.bytes(32), "big") | 1))
    if kind == "raw64":            # 64 raw bytes, what an Ed25519 signature looks like
        return sig_raw(rng.bytes(64))
    raise AssertionError(kind)


BAD_SIG_KINDS = ("wrong-key", "random", "empty", "p256-shaped", "raw64")


def build_plan(role, behaviour, creds, rng, sigkind="wrong-key", request_client_cert=False):
    """-> list of plan items for ScriptedServer (role 'server') / ScriptedClient (role 'client')"""
    chain, key, wrong = creds["chain"], creds["key"], creds["wrong_key"]
    other_ctx = CTX_CLIENT if role == "server" else CTX_SERVER
    S = SIG_SM2SIG_SM3
    cert = item("cert", chain=chain)
    fin = item("fin")

    def cv(sig, scheme=S):
        return item("cv", scheme=scheme, sig=sig)
    b = behaviour
    if b == "honest":
        body = [cert, cv(sig_sign(key)), fin]
    elif b == "cv-wrong-key":
        body = [cert, cv(sig_sign(wrong)), fin]
    elif b.startswith("cv-scheme-"):
        code = b[len("cv-scheme-"):]
        scheme = _random_scheme(rng) if code == "random" else OTHER_SCHEMES[code]
        body = [cert, cv(_bad_sig(sigkind, creds, rng), scheme), fin]
    elif b == "cv-sig-random":
        body = [cert, cv(sig_raw(rng.bytes(1 + rng.below(96)))), fin]
    elif b == "cv-sig-empty":
        body = [cert, cv(sig_raw(b"")), fin]
    elif b == "cv-sig-other-der":
        # well-formed DER of a signature that is valid for something else: the CA's signature on the presented certificate,
        # or (odd draws) a fresh signature by the wrong key over unrelated bytes
        if rng.below(2):
            sg = sig_raw(cert_signature_value(chain[0]))
        else:
            sg = sig_raw(sm2_sign(wrong[0], wrong[1], TLS13_SM2_ID, rng.bytes(40), rng))
        body = [cert, cv(sg), fin]
    elif b == "cv-wrong-context":
        body = [cert, cv(sig_sign(key, context=other_ctx)), fin]
    elif b == "cv-transcript-truncated":
        body = [cert, cv(sig_sign(key, thash="drop-last")), fin]
    elif b == "cv-transcript-hello":
        body = [cert, cv(sig_sign(key, thash="hello")), fin]
    elif b == "cv-default-id":
        body = [cert, cv(sig_sign(key, ident=M.DEFAULT_ID)), fin]
    elif b == "cv-omitted":
        body = [cert, fin]
    elif b == "cert-cv-omitted":
        body = [fin]
    elif b == "cert-omitted-cv-only":
        body = [cv(sig_sign(wrong)), fin]
    elif b == "cert-empty":
        body = [item("cert", chain=[]), fin]
    elif b == "cert-empty-then-cv":
        body = [item("cert", chain=[]), cv(sig_sign(wrong)), fin]
    elif b == "cv-before-cert":
        body = [cv(sig_sign(wrong)), cert, fin]
    elif b == "cv-twice-bad-good":
        body = [cert, cv(sig_sign(wrong)), cv(sig_sign(key)), fin]
    elif b == "cv-twice-good-bad":
        body = [cert, cv(sig_sign(key)), cv(sig_sign(wrong)), fin]
    elif b == "cert-twice-cv-wrong-key":
        body = [cert, cert, cv(sig_sign(wrong)), fin]
    elif b == "untrusted-chain-own-key":
        body = [item("cert", chain=creds["untrusted_chain"]), cv(sig_sign(creds["untrusted_key"])), fin]
    else:
        raise AssertionError("unknown behaviour %r" % (b,))
    if role == "server":
        return [item("ee")] + ([item("cr")] if request_client_cert else []) + body
    return body


BEHAVIOURS = ["honest", "cv-wrong-key"] + ["cv-scheme-" + c for c in ("0403", "0804", "0807", "0000", "ffff", "0707", "0709", "0808", "random")] + [
    "cv-sig-random", "cv-sig-empty", "cv-sig-other-der", "cv-wrong-context", "cv-transcript-truncated", "cv-transcript-hello",
    "cv-default-id", "cv-omitted", "cert-cv-omitted", "cert-omitted-cv-only", "cert-empty", "cert-empty-then-cv", "cv-before-cert",
    "cv-twice-bad-good", "cv-twice-good-bad", "cert-twice-cv-wrong-key", "untrusted-chain-own-key"]


# ---------------------------------------------------------------------------------------------------------------
# one run: real library endpoint (its own thread, vlib/net.py Endpoint) against a scripted peer (its own thread)

def duel(variant, lib_is_client, make_peer, ep_kwargs, hs_timeout=30.0, data=None, stray=None):
    """make_peer(sock) -> ScriptedServer / ScriptedClient.  data = (bytes library->peer, bytes peer->library, padding) or None.
    Returns a dict: 'setup' (Endpoint set-up result), 'ret' (tls_do_handshake of the library endpoint, None if it never returned),
    'stalled' (the library endpoint had not returned within hs_timeout; the socket was then closed under it), 'peer' (summary of the
    script), 'data' ({'l2p': bool, 'p2l': bool, ...} when the data phase ran).  Sockets and threads are always cleaned up."""
    from . import net
    a, b = socket.socketpair()
    ep = net.Endpoint(variant, "tls13", lib_is_client, a, **ep_kwargs)
    peer = make_peer(b)
    out = {"setup": None, "ret": None, "stalled": False, "peer": None, "data": None}
    started = False

    def shut():
        for s in (a, b):
            try:
                s.shutdown(socket.SHUT_RDWR)
            except OSError:
                pass
    try:
        ep.start()
        su = ep.result(60.0)
        out["setup"] = su
        if su[:2] != ("setup", "ok"):
            return out
        ep.call("handshake")
        peer.start_thread()
        started = True
        hr = ep.result(hs_timeout)
        if hr[0] == "timeout":
            # the endpoint sits in a read the script will never satisfy (or the machine is overloaded): end the run
            out["stalled"] = True
            shut()
            hr = ep.result(20.0)
        if hr[0] == "handshake":
            out["ret"] = hr[1]
        elif hr[0] != "timeout":
            out["ep_error"] = hr
        if out["ret"] == 1 and not out["stalled"]:
            peer.thread.join(hs_timeout)
            if data is not None and peer.done and not peer.thread.is_alive():
                l2p, p2l, pad = data
                dres = {"l2p": False, "p2l": False}
                try:
                    ep.call("send", l2p)
                    got = peer.recv_app(len(l2p))
                    sr = ep.result(hs_timeout)
                    dres["l2p"] = got == l2p and sr[:3] == ("send", 1, len(l2p))
                    dres["l2p_detail"] = (sr[:3], len(got))
                    peer.send_app(p2l, pad)
                    rr = ep.do("recv", max(len(p2l), 1) + 16, timeout=hs_timeout)
                    dres["p2l"] = rr[0] == "recv" and rr[1] == 1 and rr[2] == p2l
                    dres["p2l_detail"] = (rr[0], rr[1] if len(rr) > 1 else None, len(rr[2]) if len(rr) > 2 else None)
                    if stray is not None and dres["l2p"] and dres["p2l"]:
                        # one protected record whose inner type is not application data, then application data; the library reads on
                        rt, pl, more = stray
                        peer.w.send(rt, pl, pad)
                        peer.send_app(more, pad)
                        b.shutdown(socket.SHUT_WR)          # nothing follows: further reads end at EOF instead of blocking
                        reads = []
                        for _ in range(3):
                            rr = ep.do("recv", len(more) + len(pl) + 64, timeout=hs_timeout)
                            reads.append((rr[0], rr[1] if len(rr) > 1 else None, rr[2] if len(rr) > 2 else b""))
                            if rr[0] != "recv":
                                break
                        dres["stray"] = reads
                except Stop as s:
                    dres["stop"] = s.reason + ":" + s.detail
                out["data"] = dres
        return out
    finally:
        shut()
        if ep.is_alive() or not started:
            ep.call("quit")
        if started:
            peer.thread.join(10.0)
        if ep.ident is not None:
            ep.join(10.0)
        out["peer"] = peer.summary()
        for s in (a, b):
            try:
                s.close()
            except OSError:
                pass
