"""Hypothesis strategies shared by several properties. Values are JSON-friendly
(ints are carried as hex strings, bytes as hex strings)."""
from hypothesis import strategies as st
from .ref import sm2 as M

R256 = 1 << 256


def _pool(mod_list):
    pool = set()
    for v in (0, 1, 2, 3, (1 << 64) - 1, 1 << 64, (1 << 64) + 1, (1 << 128) - 1, 1 << 128, (1 << 128) + 1,
              (1 << 192) - 1, 1 << 192, (1 << 192) + 1, 1 << 255, (1 << 255) - 1, R256 - 1, R256 - 2,
              0xFFFFFFFFFFFFFFFF0000000000000000FFFFFFFFFFFFFFFF0000000000000000,
              0x0000000000000000FFFFFFFFFFFFFFFF0000000000000000FFFFFFFFFFFFFFFF,
              0xFFFFFFFF00000000FFFFFFFF00000000FFFFFFFF00000000FFFFFFFF00000000):
        pool.add(v)
    for m in mod_list:
        for j in range(0, 8):
            pool.add(m - j); pool.add(m + j)
        pool.add((m - 1) // 2); pool.add((m + 1) // 2)
        pool.add(R256 % m); pool.add(R256 * R256 % m); pool.add(R256 - m)
    return sorted(v for v in pool if 0 <= v < R256)


POOL = _pool([M.P, M.N])


def h(v):
    return "%x" % v


def u(s):
    return int(s, 16)


def hb(b):
    return bytes(b).hex()


def ub(s):
    return bytes.fromhex(s)


def near(m, width=300):
    """m +- j for small j, clipped to [0, 2^256)."""
    return st.integers(-width, width).map(lambda j: min(max(m + j, 0), R256 - 1))


_LIMBS = [0, 1, 0xFFFFFFFFFFFFFFFF, 0x8000000000000000, 0xFFFFFFFF, 0xFFFFFFFF00000000]


def _pick(sel, raw, limit, pool):
    """Deterministic map from two drawn integers to a boundary-biased value in [0, limit)."""
    kind = sel % 8
    if kind <= 1:
        v = pool[(sel >> 3) % len(pool)]
    elif kind <= 4:
        v = raw
    elif kind == 5:
        v = (M.N if (sel >> 3) & 1 else M.P) + ((sel >> 4) % 601) - 300
    elif kind == 6:
        v = (sel >> 3) % 301
    else:
        v = 0
        for i in range(4):
            v |= _LIMBS[(raw >> (8 * i)) % len(_LIMBS)] << (64 * i)
    return min(max(v, 0), R256 - 1) % limit


def z256(limit=R256, extra=()):
    """Boundary-biased integer in [0, limit) (two draws: a selector and a raw 256-bit value)."""
    pool = [v for v in POOL if v < limit] + [v for v in extra if 0 <= v < limit]
    return st.tuples(st.integers(0, 1 << 20), st.integers(0, R256 - 1)).map(lambda t: h(_pick(t[0], t[1], limit, pool)))


def in_pool(v, mods=(M.P, M.N)):
    """Boundary rule used for non-triviality accounting."""
    if v < 400 or v > R256 - 400:
        return True
    for m in mods:
        if abs(v - m) <= 300:
            return True
    limbs = [(v >> (64 * i)) & 0xFFFFFFFFFFFFFFFF for i in range(4)]
    if any(l in (0, 0xFFFFFFFFFFFFFFFF) for l in limbs):
        return True
    return v in _POOLSET


_POOLSET = set(POOL)


def scalar_d():
    """SM2 private keys in [1, n-2], boundary biased."""
    return st.one_of(st.sampled_from([1, 2, 3, M.N - 2, M.N - 3, M.N - 4]), st.integers(1, M.N - 2),
                     st.integers(1, 1 << 64)).map(h)


def hexbytes(min_size=0, max_size=64):
    return st.binary(min_size=min_size, max_size=max_size).map(hb)


def chunking(total):
    """A partition of `total` bytes into update() calls (list of sizes, zeros allowed)."""
    return st.lists(st.integers(0, max(total, 1)), min_size=0, max_size=8).map(lambda cuts: _cuts(total, cuts))


def _cuts(total, cuts):
    pts = sorted(min(c, total) for c in cuts)
    out, prev = [], 0
    for p in pts:
        out.append(p - prev)
        prev = p
    out.append(total - prev)
    return out
