"""Two real library endpoints in one process, connected only through a proxy the harness owns.

  client thread <-socketpair-> Proxy (record aware, fragmenting, fault hooks) <-socketpair-> server thread

Endpoints are driven by commands from the test thread (handshake / send / recv / shutdown), so a
generated program of operations is executed deterministically.  Each endpoint thread has its own
scripted entropy stream (the interposer state is per thread); the clock is frozen process-wide.
"""
import ctypes, os, socket, threading, queue, select, time, hashlib
from .ffi import lib, Buf, obj, sizeof, offsetof, const, shim, helper
from . import pki

PROTOS = ("tlcp", "tls12", "tls13")


def _proto_const(p):
    return const({"tlcp": "TLS_protocol_tlcp", "tls12": "TLS_protocol_tls12", "tls13": "TLS_protocol_tls13"}[p])


def _cipher(p):
    return const({"tlcp": "TLS_cipher_ecc_sm4_cbc_sm3", "tls12": "TLS_cipher_ecdhe_sm4_cbc_sm3", "tls13": "TLS_cipher_sm4_gcm_sm3"}[p])


class Endpoint(threading.Thread):
    """One TLS endpoint; all library calls for it happen in this thread."""

    def __init__(self, variant, proto, is_client, sock, cafile=None, chainfile=None, keyfile=None, enckeyfile=None,
                 depth=None, entropy_seed=1, entropy_script=b"", password=pki.PASSWORD, fail_at=None, doctor=None):
        threading.Thread.__init__(self, daemon=True)
        self.l = lib(variant)
        self.proto, self.is_client, self.sock = proto, is_client, sock
        self.cafile, self.chainfile, self.keyfile, self.enckeyfile = cafile, chainfile, keyfile, enckeyfile
        self.depth = const("TLS_DEFAULT_VERIFY_DEPTH") if depth is None else depth
        self.seed, self.script, self.password = entropy_seed, entropy_script, password
        self.fail_at = fail_at
        self.doctor = doctor
        self.cmds = queue.Queue()
        self.results = queue.Queue()
        self.ctx = None
        self.conn = None
        self.setup_ret = None
        self.draws = 0
        self.entropy_log = b""

    # -- called from the test thread -------------------------------------------------
    def call(self, *cmd):
        self.cmds.put(cmd)

    def result(self, timeout=60.0):
        try:
            return self.results.get(timeout=timeout)
        except queue.Empty:
            return ("timeout",)

    def do(self, *cmd, timeout=60.0):
        self.call(*cmd)
        return self.result(timeout)

    # -- endpoint thread -----------------------------------------------------------------
    def _setup(self):
        l = self.l
        self.ctx = obj("TLS_CTX")
        self.conn = obj("TLS_CONNECT")
        r = l.tls_ctx_init(self.ctx, _proto_const(self.proto), const("TLS_client_mode") if self.is_client else const("TLS_server_mode"))
        if r != 1:
            return ("ctx_init", r)
        cs = (ctypes.c_int * 1)(_cipher(self.proto))
        r = l.tls_ctx_set_cipher_suites(self.ctx, cs, 1)
        if r != 1:
            return ("cipher_suites", r)
        if self.cafile:
            r = l.tls_ctx_set_ca_certificates(self.ctx, self.cafile, self.depth)
            if r != 1:
                return ("ca_certificates", r)
        if self.chainfile:
            if self.proto == "tlcp" and not self.is_client:
                r = l.tls_ctx_set_tlcp_server_certificate_and_keys(self.ctx, self.chainfile, self.keyfile, self.password, self.enckeyfile, self.password)
            else:
                r = l.tls_ctx_set_certificate_and_key(self.ctx, self.chainfile, self.keyfile, self.password)
            if r != 1:
                return ("certificate_and_key", r)
        r = l.tls_init(self.conn, self.ctx)
        if r != 1:
            return ("tls_init", r)
        r = l.tls_set_socket(self.conn, self.sock.fileno())
        if r != 1:
            return ("set_socket", r)
        return ("ok", 1)

    def field(self, name, struct="TLS_CONNECT"):
        off, size = offsetof(struct, name)
        return self.conn.raw(size, off)

    def set_field(self, name, data, struct="TLS_CONNECT"):
        off, size = offsetof(struct, name)
        assert len(data) <= size
        self.conn.write(data, off)

    def run(self):
        sh = shim()
        sh.stream(self.seed, self.script)
        if self.fail_at is not None:
            sh.fail_at(self.fail_at)
        l = self.l
        self.setup_ret = self._setup()
        if self.setup_ret[0] == "ok" and self.doctor:
            self.doctor(self)
        self.results.put(("setup",) + self.setup_ret)
        t13 = self.proto == "tls13"
        while True:
            cmd = self.cmds.get()
            op = cmd[0]
            try:
                if op == "quit":
                    break
                elif op == "handshake":
                    r = l.tls_do_handshake(self.conn)
                    self.draws = sh.draws()
                    self.results.put(("handshake", r))
                elif op == "send":
                    data = cmd[1]
                    sent_total, rets = 0, []
                    buf = Buf.of(data) if data else Buf(1)
                    while sent_total < len(data):
                        sl = ctypes.c_size_t(0)
                        fn = l.tls13_send if t13 else l.tls_send
                        r = fn(self.conn, buf.ptr + sent_total, len(data) - sent_total, ctypes.byref(sl))
                        rets.append(r)
                        if r != 1:
                            break
                        if sl.value == 0 or sl.value > len(data) - sent_total:
                            rets.append(-1000 - min(sl.value, 10 ** 6))
                            break
                        sent_total += sl.value
                    self.results.put(("send", rets[-1] if rets else 1, sent_total))
                elif op == "send_many":
                    # many small writes in a row (one record each): cmd[1] = data, cmd[2] = chunk sizes (cycled)
                    data, sizes = cmd[1], cmd[2]
                    off, i, ret, calls = 0, 0, 1, 0
                    fn = l.tls13_send if t13 else l.tls_send
                    buf = Buf.of(data) if data else Buf(1)
                    sl = ctypes.c_size_t(0)
                    while off < len(data):
                        n = min(sizes[i % len(sizes)], len(data) - off); i += 1
                        sl.value = 0
                        ret = fn(self.conn, buf.ptr + off, n, ctypes.byref(sl))
                        calls += 1
                        if ret != 1 or sl.value != n:
                            ret = ret if ret != 1 else -1000 - sl.value
                            break
                        off += n
                    self.results.put(("send_many", ret, off, calls))
                elif op == "recv":
                    bufsize = cmd[1]
                    out = Buf(bufsize, fill=0xA5)
                    rl = ctypes.c_size_t(0)
                    fn = l.tls13_recv if t13 else l.tls_recv
                    r = fn(self.conn, out, bufsize, ctypes.byref(rl))
                    if r == 1 and rl.value > bufsize:
                        self.results.put(("recv", -1000, b""))
                    else:
                        self.results.put(("recv", r, out.raw(rl.value) if r == 1 else b""))
                elif op == "recv_n":
                    # read until `total` bytes arrived, cycling through the given buffer sizes; all inside this thread
                    total, bufs = cmd[1], cmd[2]
                    parts, got, i, bad = [], 0, 0, None
                    fn = l.tls13_recv if t13 else l.tls_recv
                    outs = {bs: Buf(bs, fill=0xA5) for bs in set(bufs)}    # exact-size destination per buffer size
                    rl = ctypes.c_size_t(0)
                    while got < total:
                        bs = bufs[i % len(bufs)]; i += 1
                        out = outs[bs]
                        rl.value = 0
                        r = fn(self.conn, out, bs, ctypes.byref(rl))
                        if r != 1 or rl.value < 1 or rl.value > bs:
                            bad = (r, rl.value, bs, got)
                            break
                        parts.append(out.raw(rl.value))
                        got += rl.value
                    self.results.put(("recv_n", bad, b"".join(parts), i))
                elif op == "shutdown":
                    r = l.tls_shutdown(self.conn)
                    self.results.put(("shutdown", r))
                elif op == "close":
                    try:
                        self.sock.shutdown(socket.SHUT_RDWR)
                    except OSError:
                        pass
                    self.results.put(("close", 1))
                elif op == "entropy":
                    self.results.put(("entropy", sh.draws(), sh.log()))
                elif op == "draws":
                    self.results.put(("draws", [sh.draw(i) for i in range(min(sh.draws(), 1024))]))
                else:
                    self.results.put(("unknown", op))
            except Exception as e:   # harness error inside the thread: surface it
                self.results.put(("exception", repr(e)))
        sh.reset()


class Record:
    __slots__ = ("dir", "idx", "raw")

    def __init__(self, d, idx, raw):
        self.dir, self.idx, self.raw = d, idx, raw

    @property
    def type(self):
        return self.raw[0]


class Proxy(threading.Thread):
    """Forwards bytes between the two inner sockets, record by record.

    hook(record) -> list of byte strings to deliver instead (default [record.raw]); called for each complete record
    in the order seen, with per-direction indices. frag(dir, n) -> fragment size for the next write."""

    def __init__(self, c_inner, s_inner, hook=None, frag=None, quiet_ms=None):
        threading.Thread.__init__(self, daemon=True)
        self.socks = {"c2s": (c_inner, s_inner), "s2c": (s_inner, c_inner)}
        self.hook, self.frag = hook, frag
        self.buf = {"c2s": b"", "s2c": b""}
        self.count = {"c2s": 0, "s2c": 0}
        self.log = []                # (dir, idx, type, length) of every record seen
        self.delivered = {"c2s": 0, "s2c": 0}
        self.stop = threading.Event()
        self.quiet_ms = quiet_ms
        self.closed = {"c2s": False, "s2c": False}
        self.stalled = False
        self.last_activity = time.monotonic()
        self.lock = threading.Lock()     # held while bytes are taken off a socket and turned into log entries

    def settled(self, d):
        """True when every byte the sender of direction d has written so far has been taken off its socket and cut into records
        (the log is complete for what was written); False while bytes are pending or a partial record is buffered"""
        import fcntl, termios, struct
        with self.lock:
            try:
                pending = struct.unpack("i", fcntl.ioctl(self.socks[d][0].fileno(), termios.FIONREAD, b"\0\0\0\0"))[0]
            except OSError:
                return False
            return pending == 0 and not self.buf[d]

    def _deliver(self, d, data):
        """queue bytes for direction d; they are written by the main loop without ever blocking"""
        self.outq[d] += data

    def _pump(self, d):
        """write one fragment of the queued bytes of direction d (socket is non-blocking)"""
        dst = self.socks[d][1]
        q = self.outq[d]
        if not q:
            return
        n = len(q)
        if self.frag:
            n = max(1, min(n, self.frag(d, n)))
        try:
            k = dst.send(bytes(q[:n]))
        except (BlockingIOError, InterruptedError):
            return
        except OSError:
            self.outq[d] = bytearray()
            return
        del q[:k]
        self.delivered[d] += k

    def run(self):
        c_inner, s_inner = self.socks["c2s"]
        self.outq = {"c2s": bytearray(), "s2c": bytearray()}
        for s in (c_inner, s_inner):
            s.setblocking(False)
        eof_pending = {"c2s": False, "s2c": False}
        while not self.stop.is_set():
            for d in ("c2s", "s2c"):
                if eof_pending[d] and not self.outq[d]:
                    eof_pending[d] = False
                    try:
                        self.socks[d][1].shutdown(socket.SHUT_WR)
                    except OSError:
                        pass
            rd = [s for s, k in ((c_inner, "c2s"), (s_inner, "s2c")) if not self.closed[k]]
            wr = [self.socks[d][1] for d in ("c2s", "s2c") if self.outq[d]]
            if not rd and not wr:
                break
            try:
                r, w, _ = select.select(rd, wr, [], 0.02)
            except (OSError, ValueError):
                break
            if not r and not w:
                if self.quiet_ms is not None and (time.monotonic() - self.last_activity) * 1000 > self.quiet_ms:
                    # nothing in flight for a long time: the peers wait for each other (a dropped/garbled record);
                    # end the session by closing both directions - this can only turn 'completed' into 'failed'
                    self.stalled = True
                    self.close_all()
                    break
                continue
            self.last_activity = time.monotonic()
            for s in w:
                d = "c2s" if s is s_inner else "s2c"
                self._pump(d)
            for s in r:
              with self.lock:
                d = "c2s" if s is c_inner else "s2c"
                try:
                    chunk = s.recv(65536)
                except (BlockingIOError, InterruptedError):
                    continue
                except OSError:
                    chunk = b""
                if not chunk:
                    self.closed[d] = True
                    # flush any partial record as is and propagate EOF once the queue has drained
                    if self.buf[d]:
                        self._deliver(d, self.buf[d]); self.buf[d] = b""
                    eof_pending[d] = True
                    continue
                self.buf[d] += chunk
                while len(self.buf[d]) >= 5:
                    ln = int.from_bytes(self.buf[d][3:5], "big")
                    if len(self.buf[d]) < 5 + ln:
                        break
                    raw, self.buf[d] = self.buf[d][:5 + ln], self.buf[d][5 + ln:]
                    rec = Record(d, self.count[d], raw)
                    self.count[d] += 1
                    self.log.append((d, rec.idx, raw[0], ln))
                    outs = self.hook(rec) if self.hook else [raw]
                    for o in outs:
                        if isinstance(o, tuple):      # ("to", dir, bytes): inject into a chosen direction
                            self._deliver(o[1], o[2])
                        else:
                            self._deliver(d, o)

    def close_all(self):
        for a, b in self.socks.values():
            for s in (a, b):
                try:
                    s.shutdown(socket.SHUT_RDWR)
                except OSError:
                    pass


class Session:
    """client + server + proxy for one protocol run"""

    def __init__(self, variant, proto, pki_files, client_files=None, mutual=False, hook=None, frag=None, quiet_ms=None,
                 seed=1, client_cafile="default", server_cafile=None, depth=None, server_files=None,
                 client_script=b"", server_script=b"", fail=None, client_doctor=None, server_doctor=None, client_offers=False):
        self.proto = proto
        c_outer, c_inner = socket.socketpair()
        s_inner, s_outer = socket.socketpair()
        self._socks = (c_outer, c_inner, s_inner, s_outer)
        sf = server_files or pki_files
        cf = client_files
        cseed = int.from_bytes(hashlib.sha256(b"c%d" % seed).digest()[:8], "big")
        sseed = int.from_bytes(hashlib.sha256(b"s%d" % seed).digest()[:8], "big")
        self.client = Endpoint(variant, proto, True, c_outer,
                               cafile=pki_files["root"] if client_cafile == "default" else client_cafile,
                               # client_offers: the client is configured with its certificate although the server will not ask for one
                               chainfile=cf["chain"] if ((mutual or client_offers) and cf) else None,
                               keyfile=cf["leafkey"] if ((mutual or client_offers) and cf) else None,
                               depth=depth, entropy_seed=cseed, entropy_script=client_script,
                               fail_at=fail[1] if fail and fail[0] == "client" else None, doctor=client_doctor)
        self.server = Endpoint(variant, proto, False, s_outer,
                               cafile=(server_cafile if server_cafile else (cf["root"] if (mutual and cf) else None)),
                               chainfile=sf["chain"], keyfile=sf["leafkey"], enckeyfile=sf.get("enckey"),
                               depth=depth, entropy_seed=sseed, entropy_script=server_script,
                               fail_at=fail[1] if fail and fail[0] == "server" else None, doctor=server_doctor)
        self.proxy = Proxy(c_inner, s_inner, hook=hook, frag=frag, quiet_ms=quiet_ms)

    def start(self):
        self.proxy.start()
        self.client.start(); self.server.start()
        rc = self.client.result(); rs = self.server.result()
        return rc, rs

    def handshake(self, timeout=60.0):
        self.server.call("handshake")
        self.client.call("handshake")
        rc = self.client.result(timeout)
        rs = self.server.result(timeout)
        return rc, rs

    def finish(self):
        self.proxy.close_all()
        for ep in (self.client, self.server):
            ep.call("quit")
        self.proxy.stop.set()
        for ep in (self.client, self.server):
            ep.join(5.0)
        self.proxy.join(5.0)
        for s in self._socks:
            try:
                s.close()
            except OSError:
                pass
