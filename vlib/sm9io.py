"""Moving SM9 values between Python integers and the library's public types, plus the
Hypothesis strategies for SM9 operands.

Representation facts (read from src/sm9_z256.c, include/gmssl/sm9_z256.h):
* sm9_z256_t = uint64_t[4], least significant limb first.
* Field elements handed to modp_mont_*/fp2_*/fp4_*/fp12_*/point functions are in
  Montgomery form (value * 2^256 mod p); mod-n functions use plain integers.
* sm9_z256_fp2_t  = z256[2]   {a0, a1}      a0 + a1 u,   u^2 = -2
  sm9_z256_fp4_t  = fp2[2]    {A0, A1}      A0 + A1 v,   v^2 = u
  sm9_z256_fp12_t = fp4[3]    {C0, C1, C2}  C0 + C1 w + C2 w^2,  w^3 = v
  so the 12 limbs-quadruples lie in memory with index 4k + 2j + i for u^i v^j w^k,
  which is vlib.ref.sm9's "flat" order.
* to_bytes/to_hex write the highest coefficient first and leave Montgomery form.
* SM9_Z256_POINT = {X, Y, Z} Jacobian, Montgomery, infinity <=> Z == 0.
  SM9_Z256_TWIST_POINT = {X, Y, Z} over Fp2, same convention.
"""
from hypothesis import strategies as st
from .ffi import Buf, sizeof
from .ref import sm9 as M
from . import gen
from .gen import h, u

R = 1 << 256
P, N = M.P, M.N
RINV = pow(R, -1, P)
MONT_ONE = R % P


def to_mont(v):
    return v * R % P


def from_mont(v):
    return v * RINV % P


# --- boundary pool for SM9 ---------------------------------------------------------------------
POOL = gen._pool([P, N])
_POOLSET = set(POOL)
_LIMBS = [0, 1, 0xFFFFFFFFFFFFFFFF, 0x8000000000000000, 0xFFFFFFFF, 0xFFFFFFFF00000000]


def _pick(sel, raw, limit, pool):
    kind = sel % 8
    if kind <= 1:
        v = pool[(sel >> 3) % len(pool)]
    elif kind <= 4:
        v = raw
    elif kind == 5:
        v = (N if (sel >> 3) & 1 else P) + ((sel >> 4) % 201) - 100
    elif kind == 6:
        v = (sel >> 3) % 301
    else:
        v = 0
        for i in range(4):
            v |= _LIMBS[(raw >> (8 * i)) % len(_LIMBS)] << (64 * i)
    return min(max(v, 0), R - 1) % limit


def z256(limit=R, extra=()):
    """Boundary-biased integer in [0, limit) as a hex string."""
    pool = [v for v in POOL if v < limit] + [v for v in extra if 0 <= v < limit]
    return st.tuples(st.integers(0, 1 << 20), st.integers(0, R - 1)).map(lambda t: h(_pick(t[0], t[1], limit, pool)))


def in_pool(v):
    if v < 400 or v > R - 400:
        return True
    if abs(v - P) <= 300 or abs(v - N) <= 300:
        return True
    limbs = [(v >> (64 * i)) & 0xFFFFFFFFFFFFFFFF for i in range(4)]
    if any(l in (0, 0xFFFFFFFFFFFFFFFF) for l in limbs):
        return True
    return v in _POOLSET


def felems(n):
    """n raw Fp coordinates (Montgomery representatives in [0,p)) with boundary/sparse shapes."""
    zero, one, pm1 = h(0), h(MONT_ONE), h(P - 1)
    coord = z256(P, extra=(MONT_ONE, P - MONT_ONE, to_mont(2), to_mont(P - 1)))
    dense = st.lists(coord, min_size=n, max_size=n)
    sparse = st.lists(st.one_of(st.just(zero), st.just(zero), st.just(zero), coord), min_size=n, max_size=n)
    special = st.sampled_from([[zero] * n, [one] + [zero] * (n - 1), [pm1] * n, [h(1)] * n,
                               [zero] * (n - 1) + [one], [pm1] + [zero] * (n - 1)])
    return st.one_of(dense, dense, dense, sparse, sparse, special)


def scalar():
    """Scalars for point multiplication / exponents: pool, near N (incl. N-74), >= N, sparse windows."""
    return st.one_of(
        z256(),
        gen.near(N, 100).map(h),
        st.sampled_from([N - 74, N - 75, N - 73, N - 1, N, N + 1, N - 37, N + 74]).map(h),
        gen.near(N, 4200).map(h),
        st.integers(0, 300).map(h),
        gen.near(R - 1, 300).map(h),
        st.tuples(st.integers(0, 255), st.integers(1, 127)).map(lambda t: h((t[1] << t[0]) % R)),
        st.integers(0, 255).map(lambda s: h((R - 1) >> s)),
    )


# --- integers ---------------------------------------------------------------------------------------

def z_in(v):
    return Buf.of(int(v).to_bytes(32, "little"))


def z_out():
    return Buf(32, fill=0xA5)


def z_get(buf, off=0):
    return int.from_bytes(buf.raw(32, off), "little")


# --- field tower: "raw" = list of limb integers exactly as stored (Montgomery) -----------------------

def fe_in(raw):
    """Buf holding len(raw) consecutive sm9_z256_t (fp2: 2, fp4: 4, fp12: 12)."""
    return Buf.of(b"".join(int(v).to_bytes(32, "little") for v in raw))


def fe_out(n):
    return Buf(32 * n, fill=0xA5)


def fe_get(buf, n, off=0):
    raw = buf.raw(32 * n, off)
    return [int.from_bytes(raw[32 * i:32 * i + 32], "little") for i in range(n)]


def val(raw):
    """raw Montgomery limbs -> plain values"""
    return [from_mont(v % P) for v in raw]


def mont(vals):
    return [to_mont(v % P) for v in vals]


def f2_of(raw):
    v = val(raw)
    return (v[0], v[1])


def f4_of(raw):
    v = val(raw)
    return ((v[0], v[1]), (v[2], v[3]))


def f12_of(raw):
    return M.f12_unflat(val(raw))


def raw_f2(a):
    return mont([a[0], a[1]])


def raw_f4(a):
    return mont([a[0][0], a[0][1], a[1][0], a[1][1]])


def raw_f12(a):
    return mont(M.f12_flat(a))


# --- G1 points -------------------------------------------------------------------------------------------

def pt1_in(aff, lam=1, zero_form=False):
    """SM9_Z256_POINT for affine `aff` (None = infinity), Jacobian representative scaled by lam != 0."""
    if aff is None:
        vals = (0, 0, 0) if zero_form else (to_mont(lam * lam % P), to_mont(pow(lam, 3, P)), 0)
    else:
        x, y = aff
        vals = (to_mont(x * lam * lam % P), to_mont(y * pow(lam, 3, P) % P), to_mont(lam % P))
    return fe_in(vals)


def pt1_get(buf, off=0):
    """-> (affine or None, all coordinates < p)"""
    X, Y, Z = fe_get(buf, 3, off)
    ok = X < P and Y < P and Z < P
    if Z % P == 0:
        return None, ok
    x, y, z = from_mont(X % P), from_mont(Y % P), from_mont(Z % P)
    zi = pow(z, -1, P)
    return (x * zi * zi % P, y * pow(zi, 3, P) % P), ok


# --- G2 points -------------------------------------------------------------------------------------------

def pt2_in(aff, lam=(1, 0), zero_form=False):
    """SM9_Z256_TWIST_POINT for affine `aff` = ((x0,x1),(y0,y1)); Jacobian representative scaled by lam in Fp2*."""
    l2 = M.f2_sqr(lam)
    l3 = M.f2_mul(l2, lam)
    if aff is None:
        X, Y, Z = ((0, 0), (0, 0), (0, 0)) if zero_form else (l2, l3, (0, 0))
    else:
        X, Y, Z = M.f2_mul(aff[0], l2), M.f2_mul(aff[1], l3), lam
    return fe_in(mont([X[0], X[1], Y[0], Y[1], Z[0], Z[1]]))


def pt2_get(buf, off=0):
    raw = fe_get(buf, 6, off)
    ok = all(v < P for v in raw)
    v = val(raw)
    X, Y, Z = (v[0], v[1]), (v[2], v[3]), (v[4], v[5])
    if Z == (0, 0):
        return None, ok
    zi = M.f2_inv(Z)
    zi2 = M.f2_sqr(zi)
    return (M.f2_mul(X, zi2), M.f2_mul(Y, M.f2_mul(zi2, zi))), ok


# --- key structs (all members are uint64_t arrays: no padding) ----------------------------------------------
# SM9_SIGN_MASTER_KEY {TWIST_POINT Ppubs; z256 ks}          224
# SM9_SIGN_KEY        {TWIST_POINT Ppubs; POINT ds}         288
# SM9_ENC_MASTER_KEY  {POINT Ppube; z256 ke}                128
# SM9_ENC_KEY         {POINT Ppube; TWIST_POINT de}         288

def check_layout():
    assert sizeof("SM9_SIGN_MASTER_KEY") == 224 and sizeof("SM9_SIGN_KEY") == 288
    assert sizeof("SM9_ENC_MASTER_KEY") == 128 and sizeof("SM9_ENC_KEY") == 288
    assert sizeof("SM9_Z256_POINT") == 96 and sizeof("SM9_Z256_TWIST_POINT") == 192


def sign_master_get(buf):
    return pt2_get(buf, 0)[0], z_get(buf, 192)


def sign_key_get(buf):
    return pt2_get(buf, 0)[0], pt1_get(buf, 192)[0]


def enc_master_get(buf):
    return pt1_get(buf, 0)[0], z_get(buf, 96)


def enc_key_get(buf):
    return pt1_get(buf, 0)[0], pt2_get(buf, 96)[0]


def sign_master_pub(ppubs):
    """A master *public* key as the verifier holds it (ks = 0)."""
    b = Buf(224, fill=0)
    b.write(pt2_in(ppubs).raw(), 0)
    return b


def entropy_for(v):
    """The 32 entropy bytes that make sm9_z256_rand_range return v (it reads limbs in host order)."""
    return int(v).to_bytes(32, "little")


# --- DER (GM/T 0080 structures as the library emits them) -------------------------------------------------------

def _len(n):
    if n < 128:
        return bytes([n])
    b = n.to_bytes((n.bit_length() + 7) // 8, "big")
    return bytes([0x80 | len(b)]) + b


def _tlv(tag, content):
    return bytes([tag]) + _len(len(content)) + content


def sig_der(hh, S):
    """SM9Signature ::= SEQUENCE { h OCTET STRING(32), S BIT STRING(04||x||y) }"""
    return _tlv(0x30, _tlv(0x04, M.i2b(hh)) + _tlv(0x03, b"\x00" + M.g1_octets(S)))


def sig_regions():
    """byte offset -> region label for the 104-byte signature"""
    reg = {}
    for i in range(104):
        if i < 2:
            reg[i] = "seq-hdr"
        elif i < 4:
            reg[i] = "h-hdr"
        elif i < 36:
            reg[i] = "h"
        elif i < 39:
            reg[i] = "S-hdr"
        elif i == 39:
            reg[i] = "S-04"
        elif i < 72:
            reg[i] = "S-x"
        else:
            reg[i] = "S-y"
    return reg


SIG_REGIONS = sig_regions()


def ct_der(c1, c3, c2):
    """SM9Cipher ::= SEQUENCE { EnType INTEGER(0), C1 BIT STRING, C3 OCTET STRING(32), CipherText OCTET STRING }"""
    return _tlv(0x30, b"\x02\x01\x00" + _tlv(0x03, b"\x00" + M.g1_octets(c1)) + _tlv(0x04, c3) + _tlv(0x04, c2))


def ct_regions(mlen):
    """list of region labels, one per byte of the ciphertext of an mlen-byte plaintext"""
    body = 3 + 68 + 34 + len(_tlv(0x04, b"\0" * mlen))
    hdr = 1 + len(_len(body))
    c2hdr = 1 + len(_len(mlen))
    reg = ["seq-hdr"] * hdr + ["entype"] * 3 + ["c1-hdr"] * 3 + ["c1-04"] + ["c1-x"] * 32 + ["c1-y"] * 32 + \
          ["c3-hdr"] * 2 + ["c3"] * 32 + ["c2-hdr"] * c2hdr + ["c2"] * mlen
    return reg
