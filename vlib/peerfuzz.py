"""Structure-aware mutation of what a scripted peer (vlib/peer12.py, vlib/peer13.py) sends, *behind* the keys.

The scripted peers hold the traffic keys, so a malformed message body / record can be sent correctly protected
(AEAD tag / HMAC + CBC padding right), with the transcript - and therefore the peer's own Finished - computed over
what really went over the wire.  Nothing in peer12.py / peer13.py is edited: the classes below subclass them and
replace the record layer object and the "send one handshake message" step.

Parts
  message trees      parse_msg(): handshake message -> tree of TLS vectors (u8/u16/u24 length prefix) and DER TLVs,
                     re-serialised with honest, forged or stale lengths
  Mut                one mutation (dict, JSON) applied to the n-th outgoing handshake message of the honest flight
                     -> list of records to send + bytes that enter the transcript
  Server13/Client13/Server12/Client12   the scripted peers with the hook
  session()          one library endpoint (vlib.net.Endpoint, own thread) against one scripted peer (this thread):
                     handshake, optional application phase, invariants of TLS_CONNECT, consumption accounting
"""
import array, atexit, fcntl, hashlib, hmac as _hmac, os, select, shutil, socket, termios, time, traceback

from . import build as B
from . import net, pki
from . import peer12 as S
from . import peer13 as Q
from .ffi import offsetof, sizeof
from .ref import blk, modes
from .ref import tlsrec as R
from .ref import x509 as X

MAXPT = 16384


# =====================================================================================================================
# message trees

class N:
    """kind: raw (data) | seq (kids, no length) | vec (lsz-byte length + kids) | der (tag + DER length + kids)
    force: None = honest length, int = this value is written instead, bytes = these length octets verbatim"""
    __slots__ = ("kind", "name", "lsz", "tag", "kids", "data", "force", "elem")

    def __init__(self, kind, name="", lsz=0, tag=b"", kids=None, data=b"", elem=False):
        self.kind, self.name, self.lsz, self.tag = kind, name, lsz, tag
        self.kids = kids if kids is not None else []
        self.data, self.force, self.elem = data, None, elem


def raw(b, name="", elem=False):
    return N("raw", name, data=bytes(b), elem=elem)


def derlen(n):
    if n < 0x80:
        return bytes([n])
    b = n.to_bytes((n.bit_length() + 7) // 8, "big")
    return bytes([0x80 | len(b)]) + b


def content(n):
    return n.data if n.kind == "raw" else b"".join(ser(k) for k in n.kids)


def ser(n):
    if n.kind == "raw":
        return n.data
    c = content(n)
    if n.kind == "seq":
        return c
    f = n.force
    if n.kind == "vec":
        if isinstance(f, bytes):
            return f + c
        ln = len(c) if f is None else f
        return min(max(ln, 0), (1 << (8 * n.lsz)) - 1).to_bytes(n.lsz, "big") + c
    if isinstance(f, bytes):
        return n.tag + f + c
    return n.tag + derlen(max(len(c) if f is None else f, 0)) + c


class Short(Exception):
    pass


class Cur:
    def __init__(self, b):
        self.b, self.o = bytes(b), 0

    def take(self, n):
        if n < 0 or self.o + n > len(self.b):
            raise Short()
        v = self.b[self.o:self.o + n]
        self.o += n
        return v

    def u(self, n):
        return int.from_bytes(self.take(n), "big")

    def rest(self):
        return len(self.b) - self.o


def p_vec(c, lsz, name, inner=None, elem=False):
    body = c.take(c.u(lsz))
    kids = None
    if inner is not None:
        try:
            kids = inner(Cur(body))
        except Short:
            kids = None
    if kids is None:
        kids = [raw(body)]
    n = N("vec", name, lsz=lsz, kids=kids, elem=elem)
    return n


def p_items(width, name):
    """list of fixed-width items"""
    def f(c):
        out = []
        while c.rest():
            out.append(raw(c.take(width), name, elem=True))
        return out
    return f


def p_der(c, name="der", depth=0, elem=False):
    tag = c.take(1)
    l0 = c.u(1)
    if l0 < 0x80:
        ln = l0
    else:
        k = l0 & 0x7f
        if k == 0 or k > 4:
            raise Short()
        ln = c.u(k)
    body = c.take(ln)
    kids = None
    if depth < 12:
        try:
            if tag[0] & 0x20:
                kids = p_ders(Cur(body), depth + 1)
            elif tag[0] == 0x04 and len(body) > 2 and body[0] in (0x30, 0x03, 0x04, 0x02):
                kids = p_ders(Cur(body), depth + 1)
            elif tag[0] == 0x03 and len(body) > 3 and body[0] == 0 and body[1] == 0x30:
                kids = [raw(body[:1])] + p_ders(Cur(body[1:]), depth + 1)
        except Short:
            kids = None
    if kids is None:
        kids = [raw(body)]
    return N("der", "%s:%02x" % (name, tag[0]), tag=tag, kids=kids, elem=elem)


def p_ders(c, depth=0):
    out = []
    while c.rest():
        out.append(p_der(c, "der", depth, elem=True))
    return out


def p_one_der(name):
    def f(c):
        n = p_der(c, name)
        if c.rest():
            raise Short()
        return [n]
    return f


def p_ext(ctx):
    """one extension: type(2) + data<u16>; known inner layouts are opened"""
    def inner_for(t):
        if t in (10, 13, 50):
            return lambda c: [p_vec(c, 2, "ext%d-list" % t, p_items(2, "code"))] + ([raw(c.take(c.rest()))] if c.rest() else [])
        if t == 11:
            return lambda c: [p_vec(c, 1, "ext11-list", p_items(1, "fmt"))] + ([raw(c.take(c.rest()))] if c.rest() else [])
        if t == 43 and ctx == "ch":
            return lambda c: [p_vec(c, 1, "versions", p_items(2, "ver"))]
        if t == 51 and ctx == "ch":
            def ks(c):
                def ents(cc):
                    out = []
                    while cc.rest():
                        out.append(N("seq", "key_share_entry", kids=[raw(cc.take(2)), p_vec(cc, 2, "key_exchange")], elem=True))
                    return out
                return [p_vec(c, 2, "client_shares", ents)]
            return ks
        if t == 51 and ctx == "sh":
            return lambda c: [raw(c.take(2)), p_vec(c, 2, "key_exchange")]
        return None

    def f(c):
        out = []
        while c.rest():
            tb = c.take(2)
            t = int.from_bytes(tb, "big")
            out.append(N("seq", "extension", kids=[raw(tb), p_vec(c, 2, "ext%d-data" % t, inner_for(t))], elem=True))
        return out
    return f


def _tail(c):
    return [raw(c.take(c.rest()))] if c.rest() else []


def _body(proto, name, c):
    t13 = proto == "tls13"
    if name == "ch":
        k = [raw(c.take(34)), p_vec(c, 1, "session_id"), p_vec(c, 2, "cipher_suites", p_items(2, "suite")), p_vec(c, 1, "compression", p_items(1, "meth"))]
        if c.rest():
            k.append(p_vec(c, 2, "extensions", p_ext("ch")))
        return k + _tail(c)
    if name == "sh":
        k = [raw(c.take(34)), p_vec(c, 1, "session_id"), raw(c.take(3))]
        if c.rest():
            k.append(p_vec(c, 2, "extensions", p_ext("sh")))
        return k + _tail(c)
    if name == "ee":
        return [p_vec(c, 2, "extensions", p_ext("ee"))] + _tail(c)
    if name == "cr" and t13:
        return [p_vec(c, 1, "certificate_request_context"), p_vec(c, 2, "extensions", p_ext("cr"))] + _tail(c)
    if name == "cr":
        def names(cc):
            out = []
            while cc.rest():
                out.append(p_vec(cc, 2, "ca_name", p_one_der("name"), elem=True))
            return out
        return [p_vec(c, 1, "certificate_types", p_items(1, "ctype")), p_vec(c, 2, "certificate_authorities", names)] + _tail(c)
    if name == "cert" and t13:
        def ents(cc):
            out = []
            while cc.rest():
                out.append(N("seq", "certificate_entry", kids=[p_vec(cc, 3, "cert_data", p_one_der("cert")), p_vec(cc, 2, "entry_extensions", p_ext("ce"))], elem=True))
            return out
        return [p_vec(c, 1, "certificate_request_context"), p_vec(c, 3, "certificate_list", ents)] + _tail(c)
    if name == "cert":
        def ents12(cc):
            out = []
            while cc.rest():
                out.append(p_vec(cc, 3, "cert_data", p_one_der("cert"), elem=True))
            return out
        return [p_vec(c, 3, "certificate_list", ents12)] + _tail(c)
    if name == "cv" and t13:
        return [raw(c.take(2)), p_vec(c, 2, "signature", p_one_der("sig"))] + _tail(c)
    if name == "cv":
        return [p_vec(c, 2, "signature", p_one_der("sig"))] + _tail(c)
    if name == "ske" and proto == "tls12":
        return [raw(c.take(3)), p_vec(c, 1, "ec_point"), raw(c.take(2)), p_vec(c, 2, "signature", p_one_der("sig"))] + _tail(c)
    if name == "ske":
        return [p_vec(c, 2, "signature", p_one_der("sig"))] + _tail(c)
    if name == "cke" and proto == "tls12":
        return [p_vec(c, 1, "ec_point")] + _tail(c)
    if name == "cke":
        return [p_vec(c, 2, "encrypted_pms", p_one_der("sm2ct"))] + _tail(c)
    return _tail(c)


def parse_msg(proto, name, msg):
    """whole handshake message -> (root, hs-length node)"""
    try:
        kids = _body(proto, name, Cur(msg[4:]))
    except Short:
        kids = [raw(msg[4:])]
    hl = N("vec", "handshake-length", lsz=3, kids=kids)
    return N("seq", "handshake", kids=[raw(msg[:1]), hl]), hl


def walk(n, anc=(), out=None):
    """DFS list of (node, ancestors) for vec / der nodes"""
    if out is None:
        out = []
    if n.kind in ("vec", "der"):
        out.append((n, anc))
    if n.kind != "raw":
        a2 = anc + ((n,) if n.kind in ("vec", "der") else ())
        for k in n.kids:
            walk(k, a2, out)
    return out


# =====================================================================================================================
# record protection with every knob

def prot13(key, iv, seq, inner):
    """TLS 1.3 AEAD over an arbitrary inner plaintext (may be empty / all zero); AAD as the receiver computes it"""
    clen = len(inner) + 16
    aad = b"\x17\x03\x03" + (clen & 0xFFFF).to_bytes(2, "big")
    ct, tag = modes.gcm_encrypt("sm4", key, R.tls13_nonce(iv, seq.to_bytes(8, "big")), aad, inner, 16)
    return ct + tag


def prot13_primed(key, iv, seq, last_byte):
    """a maximum-size TLS 1.3 record (ciphertext 18432 bytes = all of TLS_CONNECT.record) that opens correctly as application data
    and whose very last byte - the end of the tag - is `last_byte`: the byte in front of TLS_CONNECT.databuf is then chosen by
    the peer, which is what an off-by-one read below the start of the decryption output would pick up.
    GHASH is linear: a difference d in the ciphertext block three places before the end of the GHASH input moves the tag by d*H^3."""
    n = 18432 - 16
    inner = _fill(3, n - 1, b"prime") + b"\x17"
    nonce = R.tls13_nonce(iv, seq.to_bytes(8, "big"))
    aad = b"\x17\x03\x03" + (n + 16).to_bytes(2, "big")
    ct, tag = modes.gcm_encrypt("sm4", key, nonce, aad, inner, 16)
    h = int.from_bytes(blk.ecb("sm4", key, bytes(16)), "big")
    h3 = modes.gf_mul_bitwise(modes.gf_mul_bitwise(h, h), h)
    d = modes.gf_mul_bitwise(tag[-1] ^ (last_byte & 0xFF), modes.gf_inv(h3))
    o = n - 32                                  # second last ciphertext block (the last one carries the content type)
    blk2 = (int.from_bytes(ct[o:o + 16], "big") ^ d).to_bytes(16, "big")
    ct = ct[:o] + blk2 + ct[o + 16:]
    tag = modes.xor(blk.ecb("sm4", key, nonce + b"\0\0\0\1"), modes.ghash(blk.ecb("sm4", key, bytes(16)), aad, ct))
    assert tag[-1] == last_byte & 0xFF
    return ct + tag


def prot_cbc(mac_key, enc_key, seq, rtype, ver, payload, iv, padmode="min", padlen=0):
    """IV || CBC(payload || HMAC || padding).  padmode: min | max | n (padlen-th legal length) | badbyte | toolong | lastonly"""
    hdr = bytes([rtype & 0xFF]) + ver + (len(payload) & 0xFFFF).to_bytes(2, "big")
    mac = _hmac.new(mac_key, seq.to_bytes(8, "big") + hdr + payload, "sm3").digest()
    body = payload + mac
    minpad = (-(len(body) + 1)) % 16
    steps = (255 - minpad) // 16
    if padmode == "max":
        p = minpad + 16 * steps
    elif padmode in ("n", "badbyte", "lastonly"):
        p = minpad + 16 * (padlen % (steps + 1))
        if padmode != "n" and p == 0:
            p = 16
    else:
        p = minpad
    tail = bytearray([p]) * (p + 1)
    if padmode == "badbyte":
        tail[padlen % p] ^= 0x01 + (padlen >> 4) % 255
    elif padmode == "lastonly":
        tail = bytearray(p) + bytearray([p])
    elif padmode == "toolong":
        tail = bytearray([minpad]) * minpad + bytearray([0xFF - (padlen % 3)])
    return iv + blk.cbc("sm4", enc_key, iv, body + bytes(tail), enc=True, pad=False)


# =====================================================================================================================
# the mutation

HSTYPES = (0, 1, 2, 3, 4, 5, 8, 11, 12, 13, 14, 15, 16, 20, 21, 22, 24, 67, 254, 255)
VERSIONS = (b"\x03\x04", b"\x03\x03", b"\x03\x01", b"\x03\x00", b"\x01\x01", b"\x00\x00", b"\xff\xff", b"\x03\x02")
RECLENS = (16384, 16385, 16384 + 255, 16384 + 256, 16384 + 257, 17408, 18432, 18433, 32768, 65535)
EXTEND = (1, 2, 3, 4, 16, 255, 256, 1000, 4096, "fit", "fit+1", "fit+300")
VECHOW = ("zero", "minus1", "minus", "plus1", "plus", "max", "half", "double")
DERHOW = ("zero", "minus1", "minus", "plus1", "plus", "indef", "ffffffff", "nonmin", "huge8", "7f")
FIX = ("lie", "resize", "nofix")
DUPSIZE = (2049, 4100, 8200, 16000, "fit", 20000, 66000)
DUPCOUNT = (2, 3, 17, 100, 1000)
PAD13 = (1, 15, 16, 17, 255, 256, 1000, 4096, "fit", "fit+1", "fit+255", "fit+300")
INNER0 = (0, 1, 2, 15, 16, 17, 255, 256, 1024, 16384, 16385, 16640)
CBCPAD = ("max", "n", "badbyte", "toolong", "lastonly")


def _fill(kind, n, salt=b""):
    if n <= 0:
        return b""
    kind %= 4
    if kind == 0:
        return bytes(n)
    if kind == 1:
        return b"\xff" * n
    if kind == 2:
        return b"A" * n
    out, i = b"", 0
    while len(out) < n:
        out += hashlib.sha256(b"pf-fill" + salt + i.to_bytes(4, "big")).digest()
        i += 1
    return out[:n]


class Mut:
    """cls + eight small integers p[0..7]; `what` collects what the mutation resolved to at run time (for notes / messages)"""

    def __init__(self, cls, p, proto):
        self.cls, self.p, self.proto = cls, list(p), proto
        self.what = cls

    # -- message level: returns the new message bytes ----------------------------------------------------------
    def message(self, name, msg):
        p, cls = self.p, self.cls
        if cls == "bitflip":
            off = p[0] % len(msg)
            self.what = "bitflip@%s" % ("header" if off < 4 else "body")
            return msg[:off] + bytes([msg[off] ^ (1 << (p[1] & 7))]) + msg[off + 1:]
        if cls == "hstype":
            t = HSTYPES[p[0] % len(HSTYPES)]
            self.what = "hstype=%d" % t
            return bytes([t]) + msg[1:]
        if cls == "trunc" and len(msg) > 4:
            k = 1 + p[0] % min(len(msg) - 4, 64)
            body = msg[4:len(msg) - k]
            self.what = "trunc/%s" % ("adjusted" if p[1] & 1 else "stale-length")
            return msg[:1] + (len(body).to_bytes(3, "big") if p[1] & 1 else msg[1:4]) + body
        if cls in ("extend", "trunc"):
            e = EXTEND[p[0] % len(EXTEND)]
            if isinstance(e, str):
                e = max(1, MAXPT - len(msg) + (0 if e == "fit" else int(e[4:])))
            body = msg[4:] + _fill(p[1], e, bytes([p[2] & 255]))
            self.what = "extend/%s" % ("adjusted" if p[2] & 1 else "stale-length")
            return msg[:1] + (min(len(body), 0xFFFFFF).to_bytes(3, "big") if p[2] & 1 else msg[1:4]) + body
        root, hl = parse_msg(self.proto, name, msg)
        nodes = walk(root)
        if cls == "veclen":
            cand = [(n, a) for n, a in nodes if n.kind == "vec"]
            n, anc = cand[p[0] % len(cand)]
            how, fix = VECHOW[p[1] % len(VECHOW)], FIX[p[3] % 3]
            self._relen(n, anc, how, 1 + p[2] % 300, fix, len(msg), p[4])
            self.what = "veclen/%s/%s/%s" % (n.name, how, fix)
            return ser(root)
        if cls == "derlen":
            cand = [(n, a) for n, a in nodes if n.kind == "der"]
            if not cand:
                self.what = "derlen/none"
                return msg
            n, anc = cand[p[0] % len(cand)]
            how, fix = DERHOW[p[1] % len(DERHOW)], FIX[p[3] % 3]
            c = content(n)
            special = {"indef": b"\x80", "ffffffff": b"\x84\xff\xff\xff\xff", "huge8": b"\x88" + b"\xff" * 8, "7f": b"\x7f",
                       "nonmin": b"\x82" + len(c).to_bytes(2, "big") if len(c) < 65536 else b"\x84" + len(c).to_bytes(4, "big")}
            if how in special:
                stale = [(a, len(content(a))) for a in anc] if fix == "nofix" else []
                n.force = special[how]
                for a, ln in stale:
                    a.force = ln
                fix = "nofix" if stale else "fixed"
            else:
                self._relen(n, anc, how, 1 + p[2] % 300, fix, len(msg), p[4])
            self.what = "derlen/%s/%s/%s" % (n.name.split(":")[0], how, fix)
            return ser(root)
        if cls == "dup":
            cand = [(n, a) for n, a in nodes if any(k.elem for k in n.kids)]
            tlsl = [(n, a) for n, a in cand if n.kind == "vec"]
            if tlsl and p[4] % 4:                       # three out of four: a TLS list (certificate_list, extensions, CA names, ...), else a DER SEQUENCE/SET
                cand = tlsl
            if not cand:
                self.what = "dup/none"
                return msg
            n, anc = cand[p[0] % len(cand)]
            elems = [i for i, k in enumerate(n.kids) if k.elem]
            i = elems[p[1] % len(elems)]
            esz = max(1, len(ser(n.kids[i])))
            if p[3] & 1:
                cnt = DUPCOUNT[p[2] % len(DUPCOUNT)]
                lab = "x%d" % cnt
            else:
                t = DUPSIZE[p[2] % len(DUPSIZE)]
                lab = "to-%s" % t
                if t == "fit":
                    cnt = max(1, (MAXPT - len(msg)) // esz)
                else:
                    cnt = max(2, (t - len(content(n))) // esz + 1)
            cnt = min(cnt, max(2, 70000 // esz))
            n.kids = n.kids[:i] + [n.kids[i]] * (cnt + 1) + n.kids[i + 1:]
            self.what = "dup/%s/%s" % (n.name, lab)
            return ser(root)
        return msg

    def _relen(self, n, anc, how, k, fix, msglen, fillkind):
        c = content(n)
        ln = len(c)
        top = (1 << (8 * n.lsz)) - 1 if n.kind == "vec" else 0xFFFFFFFF
        new = {"zero": 0, "minus1": ln - 1, "minus": ln - k, "plus1": ln + 1, "plus": ln + k, "max": top, "half": ln // 2, "double": 2 * ln + 1}[how]
        new = max(0, min(new, top))
        if fix == "lie":
            n.force = new
            return
        stale = [(a, len(content(a))) for a in anc] if fix == "nofix" else []
        room = max(0, MAXPT - msglen)               # consistent resizing never grows the message beyond one full record
        grow = min(max(new - ln, 0), room)
        nc = c[:new] if new <= ln else c + _fill(fillkind, grow)
        n.kids = [raw(nc)]
        n.force = None
        for a, l0 in stale:
            a.force = l0


# =====================================================================================================================
# record layer objects that replace peer12.Wire / peer13.Wire

class _Waits:
    """select-based read with three ways out: data, the library endpoint has returned (done()), silence.
    After `half` seconds of silence the peer half-closes its sending side once (a peer that gives up waiting): a library
    endpoint blocked in the middle of a record then sees EOF instead of holding the run until the time-out."""

    def _init_waits(self, sock, done, idle, half):
        self.sock, self.done, self.idle, self.half = sock, done, idle, half
        self.inbuf = b""
        self.nsent = 0
        self.half_closed = False
        self.marks = []             # (start, end) byte offsets of the mutated record(s) in the outgoing stream

    def _raw_send(self, b):
        try:
            self.sock.sendall(b)
        except (socket.timeout, OSError):
            # count what certainly did not go out as unsent: sendall gives no number, so the mark stays conservative
            raise self.StopCls("closed", "send failed")
        self.nsent += len(b)

    def _need(self, n):
        last = time.monotonic()
        while len(self.inbuf) < n:
            try:
                r, _, _ = select.select([self.sock], [], [], 0.01)
            except (OSError, ValueError):
                raise self.StopCls("closed", "socket gone")
            if r:
                try:
                    chunk = self.sock.recv(65536)
                except (BlockingIOError, InterruptedError, socket.timeout):
                    continue
                except OSError:
                    raise self.StopCls("closed", "recv failed")
                if not chunk:
                    raise self.StopCls("closed", "EOF")
                self.inbuf += chunk
                last = time.monotonic()
                continue
            if self.done is not None and self.done():
                try:
                    r, _, _ = select.select([self.sock], [], [], 0)
                except (OSError, ValueError):
                    r = []
                if not r:
                    raise self.StopCls("lib-returned", "")
                continue
            quiet = time.monotonic() - last
            if quiet > self.half and not self.half_closed:
                self.half_closed = True
                try:
                    self.sock.shutdown(socket.SHUT_WR)
                except OSError:
                    pass
            if quiet > self.idle:
                raise self.StopCls("timeout", "%.1fs without data" % self.idle)

    def _get(self, n):
        self._need(n)
        v, self.inbuf = self.inbuf[:n], self.inbuf[n:]
        return v


class Wire13(Q.Wire, _Waits):
    StopCls = Q.Stop

    def __init__(self, sock, done, idle, half, owner):
        Q.Wire.__init__(self, sock, 10.0)
        self._init_waits(sock, done, idle, half)
        self.owner = owner

    def _sendall(self, b):
        self._raw_send(b)

    def _recvn(self, n):
        return self._get(n)

    def send_plain(self, rtype, payload, version=Q.V12):
        if rtype == Q.RT_HANDSHAKE and self.owner is not None:
            return self.owner._emit_hello(payload, version)
        Q.Wire.send_plain(self, rtype, payload, version)

    # one record with every knob -------------------------------------------------------------------------------------
    def put(self, rec):
        """rec: dict(rt outer type, pl payload, ver, it inner type (None = no type byte), pad, inner (verbatim inner plaintext),
        hdrlen (forged header length), cut (send only that many bytes of the protected body), plain)"""
        ver = rec.get("ver") or Q.V12
        if self.wkey is None or rec.get("plain"):
            body = rec["pl"]
            outer = rec.get("rt", Q.RT_HANDSHAKE)
        else:
            inner = rec.get("inner")
            if rec.get("prime") is not None:
                body = prot13_primed(self.wkey[0], self.wkey[1], self.wseq, rec["prime"])
                self.wseq += 1
                self.trace.append(">prime/%d" % rec["prime"])
                self._sendall(b"\x17" + ver + len(body).to_bytes(2, "big") + body)
                return
            if inner is None:
                it = rec.get("it", Q.RT_HANDSHAKE)
                inner = rec["pl"] + (bytes([it]) if it is not None else b"") + bytes(rec.get("pad", 0))
            inner = inner[:65535 - 16]
            body = prot13(self.wkey[0], self.wkey[1], self.wseq, inner)
            self.wseq += 1
            outer = rec.get("rt", Q.RT_APPDATA)
            if rec.get("cut") is not None:
                body = body[:rec["cut"]]
        body = body[:65535]
        hl = rec.get("hdrlen")
        hl = len(body) if hl is None else hl
        self.trace.append(">r%d/%d" % (outer, len(body)))
        self._sendall(bytes([outer & 0xFF]) + ver + (hl & 0xFFFF).to_bytes(2, "big") + body)


class Wire12(S.Wire, _Waits):
    StopCls = S.Stop

    def __init__(self, sock, version, rng, done, idle, half):
        S.Wire.__init__(self, sock, version, rng, idle, done)
        self._init_waits(sock, done, idle, half)

    def _fill(self, n):
        self._need(n)
        self.buf = self.inbuf

    def recv(self):
        r = S.Wire.recv(self)
        self.inbuf = self.buf
        return r

    def send(self, rtype, payload, version=None, plain=False):
        self.put({"rt": rtype, "pl": payload, "ver": version, "plain": plain})

    def put(self, rec):
        """rec: dict(rt, pl, ver, plain, padmode, padlen, hdrlen, cut)"""
        ver = rec.get("ver") or self.version
        rt = rec.get("rt", S.REC_HS)
        body = rec["pl"]
        if self.wkeys and not rec.get("plain"):
            body = prot_cbc(self.wkeys[0], self.wkeys[1], self.wseq, rt, ver, body[:65535 - 320], self.rng.bytes(16),
                            rec.get("padmode", "min"), rec.get("padlen", 0))
            self.wseq += 1
            if rec.get("cut") is not None:
                body = body[:rec["cut"]]
        body = body[:65535]
        hl = rec.get("hdrlen")
        hl = len(body) if hl is None else hl
        self.sent.append((rt, len(rec["pl"])))
        self._raw_send(bytes([rt & 0xFF]) + ver + (hl & 0xFFFF).to_bytes(2, "big") + body)


# =====================================================================================================================
# from one outgoing handshake message to records

class Emitter:
    """mixed into the scripted peers: numbers the outgoing handshake messages, applies self.fz (Mut or None) to message
    number self.fz_idx, sends the records and returns the bytes that enter the transcript"""

    def _init_emit(self, fz, fz_idx, t13):
        self.fz, self.fz_idx, self.t13 = fz, fz_idx, t13
        self.out_idx = 0
        self.held = None          # (name, msg) kept back for 'coalesce'
        self.mut_sent = False
        self.names = []

    def _protected(self):
        return (self.w.wkey is not None) if self.t13 else bool(self.w.wkeys)

    def _put_marked(self, recs):
        for r in recs:
            start = self.w.nsent
            try:
                self.w.put(r)
            finally:
                self.w.marks.append((start, self.w.nsent))
                self.mut_sent = True

    def _chunks(self, msg, big):
        if len(msg) <= MAXPT or big == "one":
            return [msg]
        return [msg[i:i + MAXPT] for i in range(0, len(msg), MAXPT)]

    def emit(self, name, msg, ver=None):
        """-> transcript bytes ('' when the message is held back)"""
        k = self.out_idx
        self.out_idx += 1
        self.names.append(name)
        base = {"rt": 22, "ver": ver}
        if self.held is not None:                       # second half of 'coalesce'
            hname, hmsg = self.held
            self.held = None
            self._put_marked([dict(base, pl=hmsg + msg)])
            return msg
        fz = self.fz
        if fz is None or k != self.fz_idx:
            self.w.put(dict(base, pl=msg))
            return msg
        p, cls, prot = fz.p, fz.cls, self._protected()
        if cls in ("bitflip", "hstype", "trunc", "extend", "veclen", "derlen", "dup"):
            m2 = fz.message(name, msg)
            big = "one" if p[5] & 1 else "frag"
            if len(m2) > MAXPT:
                fz.what += "/oversize-" + big
            self._put_marked([dict(base, pl=c) for c in self._chunks(m2, big)])
            return m2
        if cls == "split" and len(msg) >= 2:
            off = 1 + p[0] % (len(msg) - 1)
            fz.what = "split/%s" % ("in-header" if off < 4 else "in-body")
            self._put_marked([dict(base, pl=msg[:off]), dict(base, pl=msg[off:])])
            return msg
        if cls == "coalesce":
            if p[0] % 3 == 0 or name in ("ch", "sh", "done"):      # nothing follows in the same flight / under the same keys
                fz.what = "coalesce/twice"
                self._put_marked([dict(base, pl=msg + msg)])
                return msg + msg
            fz.what = "coalesce/with-next"
            self.held = (name, msg)
            return msg
        if cls == "zerorec":
            rt = (22, 23, 21, 20)[p[0] % 4]
            form = ("empty", "bare", "short")[p[1] % 3] if prot else "bare"
            cnt = 1 + p[2] % 3
            if form == "empty":         # correctly protected record with no content
                z = {"rt": rt if not self.t13 else 23, "it": rt, "pl": b"", "ver": ver}
            elif form == "bare":        # length 0 on the wire
                z = {"rt": rt, "pl": b"", "plain": True, "ver": ver}
            else:                       # protected body cut below the size of a tag / MAC
                z = {"rt": rt if not self.t13 else 23, "it": rt, "pl": b"", "cut": 1 + p[3] % 15, "ver": ver}
            fz.what = "zerorec/%s/type%d" % (form, rt)
            self._put_marked([dict(z) for _ in range(cnt)] + [dict(base, pl=msg)])
            return msg
        if cls == "reclen":
            L = RECLENS[p[0] % len(RECLENS)]
            mode = ("exact", "exact", "lie-more", "lie-less")[p[1] % 4]
            if mode == "exact":
                fz.what = "reclen/exact/%d" % L
                if self.t13 and prot:
                    r = dict(base, pl=msg, pad=max(0, L - 16 - len(msg) - 1))
                    tr = msg
                else:
                    over = (16 + 32 + 1) if prot else 0
                    n = max(len(msg), (L - over) if not prot else ((L - 16) // 16 * 16 - 33))
                    body = msg[4:] + _fill(p[2], n - len(msg))
                    tr = msg[:1] + (len(body).to_bytes(3, "big") if p[3] & 1 else msg[1:4]) + body
                    r = dict(base, pl=tr)
                self._put_marked([r])
                return tr
            if mode == "lie-more":
                fz.what = "reclen/header-longer/%d" % L
                self._put_marked([dict(base, pl=msg, hdrlen=L)])
            else:
                fz.what = "reclen/header-shorter"
                self._put_marked([dict(base, pl=msg, hdrlen=max(0, len(msg) - 1 - p[2] % 40))])
            return msg
        if cls == "rectype":
            outer = (20, 21, 23, 24, 0, 255, 22)[p[0] % 7]
            if self.t13 and prot and p[2] & 1:
                it = (20, 21, 23, 24, None, 255)[p[1] % 6]
                fz.what = "rectype/inner=%s" % it
                self._put_marked([dict(base, pl=msg, it=it)])
            else:
                fz.what = "rectype/outer=%d" % outer
                self._put_marked([dict(base, pl=msg, rt=outer)])
            return msg
        if cls == "version":
            v = VERSIONS[p[0] % len(VERSIONS)]
            fz.what = "version/%s" % v.hex()
            self._put_marked([dict(base, pl=msg, ver=v)])
            return msg
        if cls == "pad" and prot:
            if self.t13:
                pd = PAD13[p[0] % len(PAD13)]
                if isinstance(pd, str):
                    pd = max(0, MAXPT - len(msg) - 1 + (0 if pd == "fit" else int(pd[4:])))
                fz.what = "pad13/%s" % PAD13[p[0] % len(PAD13)]
                self._put_marked([dict(base, pl=msg, pad=pd)])
            else:
                pm = CBCPAD[p[0] % len(CBCPAD)]
                fz.what = "cbcpad/%s" % pm
                self._put_marked([dict(base, pl=msg, padmode=pm, padlen=p[1])])
            return msg
        if cls == "innerzero" and prot and self.t13:
            n = INNER0[p[0] % len(INNER0)]
            fz.what = "innerzero/%d/%s" % (n, "instead" if p[1] & 1 else "before")
            recs = [dict(base, inner=bytes(n))]
            if not p[1] & 1:
                recs.append(dict(base, pl=msg))
            self._put_marked(recs)
            return msg
        fz.what = cls + "/not-applicable"
        self._put_marked([dict(base, pl=msg)])
        return msg

    def flush_held(self):
        if self.held is not None:
            hname, hmsg = self.held
            self.held = None
            self._put_marked([{"rt": 22, "pl": hmsg + hmsg}])


# ---------------------------------------------------------------------------------------------------------------------
# TLS 1.3 peers

class _P13(Emitter):
    def _init13(self, sock, done, idle, half, fz, fz_idx):
        self.w = Wire13(sock, done, idle, half, self)
        self._init_emit(fz, fz_idx, True)
        self._subst = None

    def _emit_hello(self, msg, version):
        self._subst = self.emit(self.hello_name, msg, version)

    def _add(self, tag, msg):
        if self._subst is not None:
            msg, self._subst = self._subst, None
        Q._Peer._add(self, tag, msg)

    def _send_flight(self, my_secret):
        for it in self.plan:
            m = it["msg"]
            if m == "ee":
                msg = Q.encrypted_extensions()
            elif m == "cr":
                msg = Q.certificate_request(it.get("context", b""))
            elif m == "cert":
                msg = Q.certificate(it["chain"], it.get("context", b""))
            elif m == "cv":
                msg = Q.certificate_verify(it["scheme"], self._signature(it["sig"]))
            elif m == "fin":
                msg = Q.finished(Q.finished_mac(my_secret, self.thash()))
            else:
                raise AssertionError(m)
            tr = self.emit(m, msg)
            if tr:
                Q._Peer._add(self, m, tr)
            self.sent.append(m)
        self.flush_held()

    def run_script(self):
        try:
            self._script()
            self.done = True
        except Q.Stop as s:
            self.stop = s
        except Exception as e:
            self.error = repr(e) + "\n" + traceback.format_exc()
        return {"completed": self.done, "stop": (self.stop.reason, self.stop.detail) if self.stop else None, "error": self.error,
                "log": self.w.trace, "finished_ok": self.peer_finished_ok}

    # application phase
    def app_put(self, rec):
        self.w.put(rec)

    def app_recv(self, total):
        return self.recv_app(total)


class Server13(Q.ScriptedServer, _P13):
    hello_name = "sh"
    def __init__(self, sock, seed, plan, done, idle, half, fz=None, fz_idx=-1):
        Q.ScriptedServer.__init__(self, sock, seed, plan, timeout=10.0)
        self._init13(sock, done, idle, half, fz, fz_idx)
    _add = _P13._add
    _send_flight = _P13._send_flight


class Client13(Q.ScriptedClient, _P13):
    hello_name = "ch"
    def __init__(self, sock, seed, plan, done, idle, half, fz=None, fz_idx=-1):
        Q.ScriptedClient.__init__(self, sock, seed, plan, timeout=10.0, only_if_requested=True)
        self._init13(sock, done, idle, half, fz, fz_idx)
    _add = _P13._add
    _send_flight = _P13._send_flight


# ---------------------------------------------------------------------------------------------------------------------
# TLS 1.2 / TLCP peers

NAME12 = {1: "ch", 2: "sh", 11: "cert", 12: "ske", 13: "cr", 14: "done", 15: "cv", 16: "cke", 20: "fin"}


class _P12(Emitter):
    def _init12(self, sock, done, idle, half, fz, fz_idx):
        sock.settimeout(10.0)
        self.w = Wire12(sock, self.P["ver"], self.rng, done, idle, half)
        self._init_emit(fz, fz_idx, False)
        self._cr_done = False
        self.error = None

    def send_hs(self, typ, body, version=None):
        if typ == S.HS_DONE and self.plan.get("cr_body") is not None and not self._cr_done:
            self._cr_done = True
            self.send_hs(S.HS_CERT_REQ, self.plan["cr_body"])
        msg = S.hs_msg(typ, body)
        tr = self.emit(NAME12.get(typ, str(typ)), msg, version)
        if tr:
            self.t.append(tr)
        self.log.append(">" + S.HS_NAME.get(typ, str(typ)))
        if typ == S.HS_FINISHED:
            self.flush_held()
        return msg

    def send_ccs(self, mine):
        self.flush_held()           # a held plaintext message must not slip behind the ChangeCipherSpec
        S._Peer.send_ccs(self, mine)

    def run_script(self):
        try:
            self._run()
            self.completed = True
        except S.Stop as s:
            self.stop = s
        except Exception as e:
            self.error = repr(e) + "\n" + traceback.format_exc()
        return {"completed": self.completed, "stop": (self.stop.kind, self.stop.detail) if self.stop else None, "error": self.error,
                "log": self.log, "finished_ok": self.completed}

    def app_put(self, rec):
        self.w.put(dict(rec, rt=rec.get("rt", S.REC_APP)))

    def app_recv(self, total):
        out = b""
        while len(out) < total:
            out += self.recv_app()
        return out


class Server12(_P12, S.ScriptedServer):
    def __init__(self, proto, sock, seed, plan, done, idle, half, fz=None, fz_idx=-1):
        S.ScriptedServer.__init__(self, proto, sock, seed, plan, idle=idle, done=done)
        self._init12(sock, done, idle, half, fz, fz_idx)


class Client12(_P12, S.ScriptedClient):
    def __init__(self, proto, sock, seed, plan, done, idle, half, fz=None, fz_idx=-1):
        S.ScriptedClient.__init__(self, proto, sock, seed, plan, idle=idle, done=done)
        self._init12(sock, done, idle, half, fz, fz_idx)


# =====================================================================================================================
# set-ups: (protocol, role of the library, client authentication, PKI instance) -> endpoint arguments + honest plan

_TMP = os.path.join(B.BUILD, "tmp", "pf_%d" % os.getpid())
_SETUPS = {}
atexit.register(shutil.rmtree, _TMP, ignore_errors=True)


def _ders(ch):
    return [ch.certs["leaf"]] + [ch.certs["ca%d" % i] for i in reversed(range(ch.n_inter))]


def _rootfile(ch, d):
    os.makedirs(d, exist_ok=True)
    p = os.path.join(d, "root.pem")
    with open(p, "wb") as f:
        f.write(X.pem("CERTIFICATE", ch.certs["root"]))
    return p.encode()


def setup(variant, proto, role, auth, inst):
    """-> dict(ep: Endpoint keyword arguments, plan: honest plan of the scripted peer, flight: names of the peer's handshake messages)"""
    k = (variant, proto, role, auth, inst)
    if k in _SETUPS:
        return _SETUPS[k]
    tag = "pf-%s-%s%d-%d" % (proto, role[0], auth, inst)
    d = os.path.join(_TMP, tag)
    if proto == "tls13":
        dummy = pki.key_of(tag + "/unused")
        if role == "client":
            srv = pki.Chain(tag + "-srv", n_inter=1, role="server")
            ep = dict(cafile=_rootfile(srv, os.path.join(d, "srv")))
            if auth:
                own = pki.Chain(tag + "-own", n_inter=1, role="client")
                f = own.write(os.path.join(d, "own"), variant=variant)
                ep.update(chainfile=f["chain"], keyfile=f["leafkey"])
            creds = {"chain": _ders(srv), "key": srv.keys["leaf"], "wrong_key": dummy}
            plan = Q.build_plan("server", "honest", creds, Q.Drbg(0, "pf"), request_client_cert=bool(auth))
            flight = ["sh", "ee"] + (["cr"] if auth else []) + ["cert", "cv", "fin"]
        else:
            own = pki.Chain(tag + "-own", n_inter=1, role="server")
            f = own.write(os.path.join(d, "own"), variant=variant)
            cli = pki.Chain(tag + "-cli", n_inter=1, role="client")
            ep = dict(chainfile=f["chain"], keyfile=f["leafkey"])
            if auth:
                ep["cafile"] = _rootfile(cli, os.path.join(d, "cli"))
            creds = {"chain": _ders(cli), "key": cli.keys["leaf"], "wrong_key": dummy}
            plan = Q.build_plan("client", "honest", creds, Q.Drbg(0, "pf"))
            flight = ["ch"] + (["cert", "cv"] if auth else []) + ["fin"]
    else:
        c = S.creds(variant, proto, role, inst, 1)
        if role == "client":
            ep = dict(cafile=c.files["root"])
            plan = S.server_plan(c, "honest")
            if auth:
                own = pki.Chain(tag + "-own", n_inter=1, role="client")
                f = own.write(os.path.join(d, "own"), variant=variant)
                ep.update(chainfile=f["chain"], keyfile=f["leafkey"])
                dn = X.name(own.tag + " root")
                plan["cr_body"] = bytes([1, 64]) + S.u16(S.u16(dn))
            flight = ["sh", "cert", "ske"] + (["cr"] if auth else []) + ["done", "fin"]
        else:
            ep = dict(chainfile=c.files["chain"], keyfile=c.files["leafkey"], enckeyfile=c.files.get("enckey"))
            if auth:
                ep["cafile"] = c.tfiles["root"]
            plan = S.client_plan(c, "honest" if auth else "honest-noauth")
            flight = ["ch"] + (["cert"] if auth else []) + ["cke"] + (["cv"] if auth else []) + ["fin"]
    _SETUPS[k] = {"ep": ep, "plan": plan, "flight": flight}
    return _SETUPS[k]


def flight_of(proto, role, auth):
    if proto == "tls13":
        return (["sh", "ee"] + (["cr"] if auth else []) + ["cert", "cv", "fin"]) if role == "client" else (["ch"] + (["cert", "cv"] if auth else []) + ["fin"])
    if role == "client":
        return ["sh", "cert", "ske"] + (["cr"] if auth else []) + ["done", "fin"]
    return ["ch"] + (["cert"] if auth else []) + ["cke"] + (["cv"] if auth else []) + ["fin"]


# =====================================================================================================================
# invariants of TLS_CONNECT (what fuzz/fz_peer.c asserts after a run; ASan cannot see an overflow that stays inside the struct)

def _le(b):
    return int.from_bytes(b, "little")


def snapshot(ep):
    f = ep.field
    so, ss = offsetof("TLS_CONNECT", "sock")
    return {"head": ep.conn.raw(so + ss, 0),
            "server_certs_len": _le(f("server_certs_len")), "client_certs_len": _le(f("client_certs_len")),
            "ca_certs_len": _le(f("ca_certs_len")), "session_id_len": _le(f("session_id_len")),
            "ca_certs": f("ca_certs"), "server_certs": f("server_certs"), "client_certs": f("client_certs"),
            "datalen": _le(f("datalen")), "data": _le(f("data"))}


def invariants(ep, before, after, last_recv_ok):
    """-> list of (field, message)"""
    bad = []
    cap = offsetof("TLS_CONNECT", "server_certs")[1]
    po, ps = offsetof("TLS_CONNECT", "protocol")
    io, isz = offsetof("TLS_CONNECT", "is_client")
    so, ss = offsetof("TLS_CONNECT", "sock")
    hb, ha = before["head"], after["head"]
    if hb[po:po + ps] != ha[po:po + ps]:
        bad.append(("protocol", "conn->protocol changed from %d to %d" % (_le(hb[po:po + ps]), _le(ha[po:po + ps]))))
    if hb[io:io + isz] != ha[io:io + isz]:
        bad.append(("is_client", "conn->is_client changed"))
    if hb[io + isz:so] != ha[io + isz:so]:
        bad.append(("cipher_suites", "the configured cipher suite list / count changed"))
    if hb[so:so + ss] != ha[so:so + ss]:
        bad.append(("sock", "conn->sock changed from %d to %d" % (_le(hb[so:so + ss]), _le(ha[so:so + ss]))))
    for fld in ("server_certs_len", "client_certs_len"):
        if after[fld] > cap:
            bad.append((fld, "%s = %d > %d" % (fld, after[fld], cap)))
    if after["session_id_len"] > 32:
        bad.append(("session_id_len", "session_id_len = %d" % after["session_id_len"]))
    n = before["ca_certs_len"]
    if after["ca_certs_len"] != n or after["ca_certs"][:n] != before["ca_certs"][:n]:
        bad.append(("ca_certs", "the configured CA certificates changed during the run (ca_certs_len %d -> %d)" % (n, after["ca_certs_len"])))
    if ep.is_client:
        n = before["client_certs_len"]
        if n and after["client_certs"][:n] != before["client_certs"][:n]:
            bad.append(("own_certs", "the client's own certificate chain was overwritten"))
    else:
        n = before["server_certs_len"]
        if after["server_certs_len"] != n or after["server_certs"][:n] != before["server_certs"][:n]:
            bad.append(("own_certs", "the server's own certificate chain was overwritten (server_certs_len %d -> %d)" % (n, after["server_certs_len"])))
    if last_recv_ok:
        do, ds = offsetof("TLS_CONNECT", "databuf")
        base = ep.conn.ptr + do
        if after["datalen"] > ds:
            bad.append(("datalen", "datalen = %d > %d" % (after["datalen"], ds)))
        elif after["datalen"] and not (base <= after["data"] and after["data"] + after["datalen"] <= base + ds):
            bad.append(("data", "conn->data / datalen point outside databuf"))
    return bad


def _thread_cpu(tid):
    try:
        s = open("/proc/self/task/%d/stat" % tid).read()
        f = s[s.rindex(")") + 2:].split()
        return (int(f[11]) + int(f[12])) / os.sysconf("SC_CLK_TCK")
    except (OSError, ValueError, IndexError):
        return None


def _unread(sock):
    buf = array.array("i", [0])
    try:
        fcntl.ioctl(sock.fileno(), termios.FIONREAD, buf)
        return buf[0]
    except OSError:
        return None


# =====================================================================================================================
# application phase: records a peer that completed the handshake honestly sends afterwards, all correctly protected

APPLEN = (0, 1, 2, 15, 16, 17, 255, 256, 300, 1000, 16383, 16384, 16385, 16384 + 255, 16384 + 256, 16384 + 257, 17000, 18000, 18400, 32768, 65000)
APPKINDS13 = ("data", "data", "data", "innerzero", "innerzero", "pad", "alert", "hs", "hs", "ccs", "type", "cut", "primed")
APPKINDS12 = ("data", "data", "data", "cbcpad", "cbcpad", "alert", "alert", "hs", "ccs", "type", "cut")
ALERTS = (b"\x01\x00", b"\x02\x00", b"\x01\x5a", b"\x02\x28", b"", b"\x01", b"\x01\x00\x00", b"\xff\xff", bytes(300))
RECV_PATTERNS = ([300], [1, 1, 1, 300], [16384, 300], [20000], [16, 16, 16, 16], [300, 300, 300])


def _hs(t, body):
    return bytes([t]) + len(body).to_bytes(3, "big") + body


def app_records(proto, p):
    """p: eight small integers -> (list of record dicts for Wire*.put, labels)"""
    t13 = proto == "tls13"
    kinds = APPKINDS13 if t13 else APPKINDS12
    recs, labels = [], []
    for i in range(1 + p[0] % 3):
        a, b = p[1 + 2 * i], p[2 + 2 * i]
        kind = kinds[a % len(kinds)]
        n = APPLEN[b % len(APPLEN)]
        data = _fill(a >> 4, n, bytes([i]))
        r = {"rt": 23, "it": 23, "pl": data}
        lab = kind
        if kind == "data":
            lab = "data/%d" % n
        elif kind == "innerzero":
            r = {"rt": 23, "inner": bytes(n)}
            lab = "innerzero/%d" % n
        elif kind == "primed":
            # the byte in front of databuf set to a chosen value by a maximum-size record, then an all-zero / empty inner plaintext
            pv = (23, 22, 21, 20, 0, 255)[(b >> 5) % 6]
            recs.append({"rt": 23, "prime": pv})
            labels.append("prime/%d" % pv)
            r = {"rt": 23, "inner": bytes(n if n < 16384 else 0)}
            lab = "primed-innerzero"
        elif kind == "pad":
            r = {"rt": 23, "it": 23, "pl": data[:300], "pad": n}
            lab = "pad13/%d" % n
        elif kind == "cbcpad":
            pm = CBCPAD[b % len(CBCPAD)]
            r = {"rt": 23, "pl": data[:(16, 0, 300, 16384)[(b >> 3) % 4]], "padmode": pm, "padlen": b >> 5}
            lab = "cbcpad/%s" % pm
        elif kind == "alert":
            al = ALERTS[b % len(ALERTS)]
            r = {"rt": 21, "it": 21, "pl": al}
            lab = "alert/len%d" % len(al)
        elif kind == "hs":
            if t13:
                m = (_hs(24, b"\x00"), _hs(24, b"\x01"), _hs(24, b""), _hs(24, bytes(n)), _hs(4, bytes(8) + b"\x00" + b"\x00\x20" + bytes(32) + b"\x00\x00"),
                     _hs(4, b"\xff" * min(n, 16000)), _hs(13, b"\x00\x00\x00"), _hs(20, bytes(32)), _hs(4, bytes(n))[:max(4, n)])[b % 9]
            else:
                m = (_hs(0, b""), _hs(0, bytes(n)), _hs(1, bytes(34) + b"\x00\x00\x02\xe0\x11\x01\x00"), _hs(20, bytes(12)), _hs(11, b"\x00\x00\x00"),
                     _hs(1, bytes(n)), _hs(14, b""))[b % 7]
            r = {"rt": 22, "it": 22, "pl": m[:16384 + 300]}
            lab = "hs/type%d" % m[0]
        elif kind == "ccs":
            r = {"rt": 20, "it": 20, "pl": (b"\x01", b"", b"\x02", b"\x01\x01")[b % 4]}
        elif kind == "type":
            tv = (24, 0, 255, 19, 25)[b % 5]
            r = {"rt": tv, "it": tv, "pl": data[:300]}
            if t13 and b & 8:
                r["rt"] = 23
            lab = "type/%d" % tv
        elif kind == "cut":
            r = {"rt": 23, "it": 23, "pl": data[:64], "cut": (0, 1, 15, 16, 17, 31, 32, 47, 48, 63)[b % 10]}
            lab = "cut/%d" % r["cut"]
        recs.append(r)
        labels.append(lab)
    return recs, labels


# =====================================================================================================================
# one session

HS_WAIT = 25.0       # the scripted side has finished (or given up) when this wait starts; only load can make it long
END = b"end-of-fuzz"


def session(variant, proto, role, auth, inst, seed, fz=None, fz_idx=-1, app=None, control=False, idle=6.0, half=0.6):
    """app: None | dict(p=[8 ints]) fuzzed application phase.  control: honest run with data both ways.
    -> dict(setup, hs (tls_do_handshake result | None), peer (script report), ops [(op, ret, n)], stalled, hang, never_returned,
            consumed 'full'|'first'|'header'|'none'|'not-sent', inv [(field, msg)], app_labels, control_ok)"""
    from .ffi import shim
    shim().freeze_time(pki.T0)
    su = setup(variant, proto, role, auth, inst)
    a, b = socket.socketpair()
    for sk in (a, b):           # room for the largest flight even when the other side is not reading
        sk.setsockopt(socket.SOL_SOCKET, socket.SO_SNDBUF, 1 << 20)
        sk.setsockopt(socket.SOL_SOCKET, socket.SO_RCVBUF, 1 << 20)
    es = int.from_bytes(hashlib.sha256(b"pf-lib/%d" % seed).digest()[:8], "big")
    is_client = role == "client"
    ep = net.Endpoint(variant, proto, is_client, a, entropy_seed=es, **su["ep"])
    out = {"setup": None, "hs": None, "peer": None, "ops": [], "stalled": False, "hang": False, "never_returned": False,
           "consumed": "not-sent", "inv": [], "app_labels": [], "control_ok": None, "what": fz.what if fz else None, "recv_over": None}
    peer = None
    busy = False            # the endpoint thread is inside a library call we did not get an answer from

    def shut(how=socket.SHUT_RDWR, socks=None):
        for s in socks or (b, a):
            try:
                s.shutdown(how)
            except OSError:
                pass

    def wait_lib(t):
        """result of the pending endpoint command; a missing answer is escalated: close both sockets, wait 20 s, then look at the thread's CPU time"""
        nonlocal busy
        r = ep.result(t)
        if r[0] != "timeout":
            return r
        out["stalled"] = True
        shut()
        r = ep.result(20.0)
        if r[0] != "timeout":
            return r
        busy = True
        out["never_returned"] = True
        tid = getattr(ep, "native_id", None)
        spins = 0
        for _ in range(3):
            c0, t0 = _thread_cpu(tid) if tid else None, time.monotonic()
            r = ep.result(2.0)
            if r[0] != "timeout":
                busy = False
                out["never_returned"] = False
                return r
            c1, t1 = _thread_cpu(tid) if tid else None, time.monotonic()
            if c0 is not None and c1 is not None and (c1 - c0) >= 0.9 * (t1 - t0):
                spins += 1
        out["hang"] = spins == 3
        return ("timeout",)

    try:
        ep.start()
        st = ep.result(60.0)
        out["setup"] = st
        if st[:2] != ("setup", "ok"):
            return out
        before = snapshot(ep)
        done = lambda: not ep.results.empty()
        if proto == "tls13":
            cls = Server13 if is_client else Client13
            peer = cls(b, "pf/%d" % seed, su["plan"], done, idle, half, fz, fz_idx)
        else:
            cls = Server12 if is_client else Client12
            peer = cls(proto, b, ("pf", seed), su["plan"], done, idle, half, fz, fz_idx)
        ep.call("handshake")
        rep = peer.run_script()
        out["peer"] = rep
        if rep["error"]:
            return out
        half_closed = peer.w.half_closed
        if not rep["completed"]:
            shut(socket.SHUT_WR, (b,))          # the script is over: the library must not wait for more
            half_closed = True
        hr = ep.result(1.5)
        if hr[0] == "timeout":
            # the script has sent everything it had and the library still reads (a record announced longer than it is): end of stream
            shut(socket.SHUT_WR, (b,))
            half_closed = True
            out["eof_after_script"] = True
            hr = wait_lib(HS_WAIT)
        if hr[0] == "handshake":
            out["hs"] = hr[1]
        elif hr[0] != "timeout":
            out["ep_error"] = hr
        last_recv_ok = False
        if out["hs"] == 1 and rep["completed"] and not out["stalled"] and not half_closed:
            rng = Q.Drbg(seed, "pf-app")
            if control:
                l2p, p2l = rng.bytes(1 + rng.below(400)), rng.bytes(1 + rng.below(400))
                ok = True
                try:
                    ep.call("send", l2p)
                    got = peer.app_recv(len(l2p))
                    sr = wait_lib(HS_WAIT)
                    ok = ok and got == l2p and sr[:3] == ("send", 1, len(l2p))
                    peer.app_put({"rt": 23, "it": 23, "pl": p2l})
                    ep.call("recv", len(p2l) + 16)
                    rr = wait_lib(HS_WAIT)
                    ok = ok and rr[0] == "recv" and rr[1] == 1 and rr[2] == p2l
                    last_recv_ok = rr[0] == "recv" and rr[1] == 1
                    out["ops"] = [tuple(sr[:3]), (rr[0], rr[1] if len(rr) > 1 else None, len(rr[2]) if len(rr) > 2 else None)]
                except (Q.Stop, S.Stop) as s:
                    ok = False
                    out["ops"].append(("script-stop", repr(s), 0))
                out["control_ok"] = ok
            else:
                p = app["p"] if app else None
                try:
                    if p is not None:
                        recs, out["app_labels"] = app_records(proto, p)
                        for r in recs:
                            start = peer.w.nsent
                            try:
                                peer.app_put(dict(r))
                            finally:
                                peer.w.marks.append((start, peer.w.nsent))
                    peer.app_put({"rt": 23, "it": 23, "pl": END})
                except (Q.Stop, S.Stop) as s:
                    out["ops"].append(("script-stop", repr(s), 0))
                shut(socket.SHUT_WR, (b,))
                pattern = RECV_PATTERNS[(p[7] >> 2) % len(RECV_PATTERNS)] if p is not None else [300]
                if any(l.startswith("prime/") for l in out["app_labels"]):
                    pattern = [20000] * 6           # drain the maximum-size record in one call so that the next call reads the next record
                ops = [("recv", n) for n in pattern]
                if p is not None and p[7] & 1:
                    ops.insert(0, ("send", b"x" * (1 + p[6] % 600)))
                if p is not None and p[7] & 2 and proto != "tls13":
                    ops.append(("shutdown",))
                for op in ops:
                    ep.call(*op)
                    r = wait_lib(HS_WAIT)
                    if r[0] == "timeout":
                        break
                    ret = r[1] if len(r) > 1 else None
                    out["ops"].append((r[0], ret, len(r[2]) if r[0] == "recv" and len(r) > 2 else None))
                    if r[0] == "recv":
                        last_recv_ok = ret == 1
                        if ret == -1000:
                            out["recv_over"] = op[1]
                    if r[0] == "exception":
                        out["ep_error"] = r
                    if ret != 1:
                        break           # an application stops using the connection after an error / EOF
        # what did the library read?  (bytes the script wrote - bytes still unread in the library's socket)
        if peer.w.marks and not busy:
            un = _unread(a)
            if un is not None:
                upto = peer.w.nsent - un
                s0, e0, s1 = peer.w.marks[0][0], peer.w.marks[0][1], peer.w.marks[-1][1]
                # full: every mutated record was read; first: at least the first one completely; header: the library started on it
                out["consumed"] = "none" if (s1 == s0 or upto <= s0) else ("full" if upto >= s1 else ("first" if upto >= e0 else "header"))
        if not busy:
            out["inv"] = invariants(ep, before, snapshot(ep), last_recv_ok)
        out["what"] = fz.what if fz else None
        out["peer_gave_up"] = peer.w.half_closed
        return out
    finally:
        shut()
        if not busy:
            ep.call("quit")
            if ep.ident is not None:
                ep.join(10.0)
        for s in (a, b):
            try:
                s.close()
            except OSError:
                pass
